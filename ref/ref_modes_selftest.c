/*
 * ref_modes_selftest.c - self-test of the reference model in ref_modes.c
 *
 * Build:
 *   gcc -O2 -Wno-deprecated-declarations -o ref_modes_selftest ref_modes_selftest.c ref_modes.c -lcrypto
 *
 * 1. every function is checked against PUBLISHED vectors embedded below as
 *    literals (NIST SP 800-38A, RFC 3686, RFC 8439, RFC 3566, RFC 4493,
 *    SP 800-38B, RFC 2202, RFC 4231, FIPS 180, RFC 1321, GB/T 32905 / 32907,
 *    GM/T 0042, FIPS 81, SP 800-67, reveng CRC catalogue check values);
 *    for CBCS / DOCSIS / bit-length CTR / bit-length CMAC / GHASH the vectors
 *    are frozen literal copies from /repo/test/kat-app (origin noted at each
 *    table); for the CRCs without a catalogue entry a frozen copy of the
 *    table-driven reference functions of /repo/test/kat-app/crc_test.c is
 *    compared with the bit-by-bit division;
 * 2. the hand-written modes are cross-checked against OpenSSL's own EVP
 *    modes / HMAC() / EVP_MAC CMAC / EVP_MAC POLY1305 / EVP_chacha20 /
 *    AES-GCM (for GHASH) over lengths 0..200;
 * 3. every function is run in place (in == out) and compared with the
 *    out-of-place result.
 *
 * Prints "ok <name> <n>" lines (n = number of comparisons); exit status 0
 * only if everything matched. Has no dependence on /repo at build or run
 * time.
 */
#define OPENSSL_SUPPRESS_DEPRECATED
#include <stdio.h>
#include <stdlib.h>
#include <string.h>
#include <openssl/evp.h>
#include <openssl/hmac.h>
#include <openssl/sha.h>
#include <openssl/md5.h>
#include <openssl/params.h>
#include <openssl/core_names.h>
#include <openssl/provider.h>
#include <openssl/des.h>

#include "ref_modes.h"

/* internal helper of ref_modes.c, exported only for this self-test */
void ref__sm3_compress(uint32_t v[8], const uint8_t blk[64]);

/* ------------------------------------------------------------------------- */
/* helpers                                                                   */
/* ------------------------------------------------------------------------- */
static int total_fail;
static int grp_n, grp_fail;
static const char *grp_name;

static void
grp_begin(const char *name)
{
        grp_name = name;
        grp_n = 0;
        grp_fail = 0;
}

static void
grp_end(void)
{
        if (grp_fail) {
                printf("FAIL %s %d of %d\n", grp_name, grp_fail, grp_n);
                total_fail += grp_fail;
        } else {
                printf("ok %s %d\n", grp_name, grp_n);
        }
}

static void
hexdump(const char *t, const uint8_t *p, size_t n)
{
        size_t i;

        printf("    %s:", t);
        for (i = 0; i < n && i < 80; i++)
                printf("%02x", p[i]);
        printf("%s\n", n > 80 ? "..." : "");
}

static void
expect(const char *what, long p1, long p2, const uint8_t *got, const uint8_t *exp, size_t n)
{
        grp_n++;
        if (n && memcmp(got, exp, n) != 0) {
                grp_fail++;
                if (grp_fail <= 3) {
                        printf("  mismatch %s: %s (%ld,%ld)\n", grp_name, what, p1, p2);
                        hexdump("got", got, n);
                        hexdump("exp", exp, n);
                }
        }
}

static void
expect_u32(const char *what, long p1, uint32_t got, uint32_t exp)
{
        grp_n++;
        if (got != exp) {
                grp_fail++;
                if (grp_fail <= 3)
                        printf("  mismatch %s: %s (%ld) got %08x exp %08x\n", grp_name, what, p1,
                               got, exp);
        }
}

/* hex string -> bytes; returns the number of bytes */
static size_t
unhex(const char *s, uint8_t *out)
{
        size_t n = 0;
        int hi = -1;

        for (; *s; s++) {
                int v;

                if (*s >= '0' && *s <= '9')
                        v = *s - '0';
                else if (*s >= 'a' && *s <= 'f')
                        v = *s - 'a' + 10;
                else if (*s >= 'A' && *s <= 'F')
                        v = *s - 'A' + 10;
                else
                        continue; /* spaces allowed */
                if (hi < 0) {
                        hi = v;
                } else {
                        out[n++] = (uint8_t) (hi * 16 + v);
                        hi = -1;
                }
        }
        return n;
}

#define BUFSZ 4096
static uint8_t B_key[BUFSZ], B_iv[BUFSZ], B_in[BUFSZ], B_exp[BUFSZ], B_out[BUFSZ], B_tmp[BUFSZ];

/* deterministic filler */
static void
fill(uint8_t *p, size_t n, unsigned seed)
{
        size_t i;
        uint32_t x = 0x9e3779b9u * (seed + 1);

        for (i = 0; i < n; i++) {
                x = x * 1664525u + 1013904223u;
                p[i] = (uint8_t) (x >> 24);
        }
}

/* ------------------------------------------------------------------------- */
/* vector table types                                                        */
/* ------------------------------------------------------------------------- */
struct cvec { /* cipher vector */
        const char *name;
        size_t klen;    /* key bytes */
        size_t msgbits; /* message length in bits */
        const char *key, *iv, *pt, *ct;
};

struct mvec { /* MAC vector */
        const char *name;
        size_t klen;    /* key bytes */
        size_t msgbits; /* message length in bits */
        size_t taglen;  /* tag bytes */
        const char *key, *msg, *tag;
};

/* ------------------------------------------------------------------------- */
/* NIST SP 800-38A Appendix F                                                */
/* ------------------------------------------------------------------------- */
#define SP_PT                                                                                      \
        "6bc1bee22e409f96e93d7e117393172a" "ae2d8a571e03ac9c9eb76fac45af8e51"                      \
        "30c81c46a35ce411e5fbc1191a0a52ef" "f69f2445df4f9b17ad2b417be66c3710"
#define SP_K128 "2b7e151628aed2a6abf7158809cf4f3c"
#define SP_K192 "8e73b0f7da0e6452c810f32b809079e562f8ead2522c6b7b"
#define SP_K256 "603deb1015ca71be2b73aef0857d77811f352c073b6108d72d9810a30914dff4"
#define SP_IV   "000102030405060708090a0b0c0d0e0f"
#define SP_CTR  "f0f1f2f3f4f5f6f7f8f9fafbfcfdfeff"

static const struct cvec sp_ecb[] = {
        { "F.1.1 ECB-AES128", 16, 512, SP_K128, "", SP_PT,
          "3ad77bb40d7a3660a89ecaf32466ef97" "f5d3d58503b9699de785895a96fdbaaf"
          "43b1cd7f598ece23881b00e3ed030688" "7b0c785e27e8ad3f8223207104725dd4" },
        { "F.1.3 ECB-AES192", 24, 512, SP_K192, "", SP_PT,
          "bd334f1d6e45f25ff712a214571fa5cc" "974104846d0ad3ad7734ecb3ecee4eef"
          "ef7afd2270e2e60adce0ba2face6444e" "9a4b41ba738d6c72fb16691603c18e0e" },
        { "F.1.5 ECB-AES256", 32, 512, SP_K256, "", SP_PT,
          "f3eed1bdb5d2a03c064b5a7e3db181f8" "591ccb10d410ed26dc5ba74a31362870"
          "b6ed21b99ca6f4f9f153e7b1beafed1d" "23304b7a39f9f3ff067d8d8f9e24ecc7" },
};
static const struct cvec sp_cbc[] = {
        { "F.2.1 CBC-AES128", 16, 512, SP_K128, SP_IV, SP_PT,
          "7649abac8119b246cee98e9b12e9197d" "5086cb9b507219ee95db113a917678b2"
          "73bed6b8e3c1743b7116e69e22229516" "3ff1caa1681fac09120eca307586e1a7" },
        { "F.2.3 CBC-AES192", 24, 512, SP_K192, SP_IV, SP_PT,
          "4f021db243bc633d7178183a9fa071e8" "b4d9ada9ad7dedf4e5e738763f69145a"
          "571b242012fb7ae07fa9baac3df102e0" "08b0e27988598881d920a9e64f5615cd" },
        { "F.2.5 CBC-AES256", 32, 512, SP_K256, SP_IV, SP_PT,
          "f58c4c04d6e5f1ba779eabfb5f7bfbd6" "9cfc4e967edb808d679f777bc6702c7d"
          "39f23369a9d9bacfa530e26304231461" "b2eb05e2c39be9fcda6c19078c6a9d1b" },
};
static const struct cvec sp_cfb[] = {
        { "F.3.13 CFB128-AES128", 16, 512, SP_K128, SP_IV, SP_PT,
          "3b3fd92eb72dad20333449f8e83cfb4a" "c8a64537a0b3a93fcde3cdad9f1ce58b"
          "26751f67a3cbb140b1808cf187a4f4df" "c04b05357c5d1c0eeac4c66f9ff7f2e6" },
        { "F.3.15 CFB128-AES192", 24, 512, SP_K192, SP_IV, SP_PT,
          "cdc80d6fddf18cab34c25909c99a4174" "67ce7f7f81173621961a2b70171d3d7a"
          "2e1e8a1dd59b88b1c8e60fed1efac4c9" "c05f9f9ca9834fa042ae8fba584b09ff" },
        { "F.3.17 CFB128-AES256", 32, 512, SP_K256, SP_IV, SP_PT,
          "dc7e84bfda79164b7ecd8486985d3860" "39ffed143b28b1c832113c6331e5407b"
          "df10132415e54b92a13ed0a8267ae2f9" "75a385741ab9cef82031623d55b1e471" },
};
static const struct cvec sp_ctr[] = { /* 16-byte initial counter block */
        { "F.5.1 CTR-AES128", 16, 512, SP_K128, SP_CTR, SP_PT,
          "874d6191b620e3261bef6864990db6ce" "9806f66b7970fdff8617187bb9fffdff"
          "5ae4df3edbd5d35e5b4f09020db03eab" "1e031dda2fbe03d1792170a0f3009cee" },
        { "F.5.3 CTR-AES192", 24, 512, SP_K192, SP_CTR, SP_PT,
          "1abc932417521ca24f2b0459fe7e6e0b" "090339ec0aa6faefd5ccc2c6f4ce8e94"
          "1e36b26bd1ebc670d1bd1d665620abf7" "4f78a7f6d29809585a97daec58c6b050" },
        { "F.5.5 CTR-AES256", 32, 512, SP_K256, SP_CTR, SP_PT,
          "601ec313775789a5b7a7f504bbf3d228" "f443e3ca4d62b59aca84e990cacaf5c5"
          "2b0930daa23de94ce87017ba2d84988d" "dfc9c58db67aada613c2dd08457941a6" },
};

/* RFC 3686 section 6: counter block = nonce(4) || IV(8) || 00000001, given
 * here as the 12-byte IV form nonce||IV */
static const struct cvec rfc3686[] = {
        { "RFC3686 #1", 16, 128, "ae6852f8121067cc4bf7a5765577f39e", "00000030" "0000000000000000",
          "53696e676c6520626c6f636b206d7367", "e4095d4fb7a7b3792d6175a3261311b8" },
        { "RFC3686 #2", 16, 256, "7e24067817fae0d743d6ce1f32539163", "006cb6db" "c0543b59da48d90b",
          "000102030405060708090a0b0c0d0e0f101112131415161718191a1b1c1d1e1f",
          "5104a106168a72d9790d41ee8edad388eb2e1efc46da57c8fce630df9141be28" },
        { "RFC3686 #3", 16, 288, "7691be035e5020a8ac6e618529f9a0dc", "00e0017b" "27777f3f4a1786f0",
          "000102030405060708090a0b0c0d0e0f101112131415161718191a1b1c1d1e1f20212223",
          "c1cf48a89f2ffdd9cf4652e9efdb72d74540a42bde6d7836d59a5ceaaef3105325b2072f" },
        { "RFC3686 #4", 24, 128, "16af5b145fc9f579c175f93e3bfb0eed863d06ccfdb78515",
          "00000048" "36733c147d6d93cb", "53696e676c6520626c6f636b206d7367",
          "4b55384fe259c9c84e7935a003cbe928" },
        { "RFC3686 #5", 24, 256, "7c5cb2401b3dc33c19e7340819e0f69c678c3db8e6f6a91a",
          "0096b03b" "020c6eadc2cb500d",
          "000102030405060708090a0b0c0d0e0f101112131415161718191a1b1c1d1e1f",
          "453243fc609b23327edfaafa7131cd9f8490701c5ad4a79cfc1fe0ff42f4fb00" },
        { "RFC3686 #7", 32, 128,
          "776beff2851db06f4c8a0542c8696f6c6a81af1eec96b4d37fc1d689e6c1c104",
          "00000060" "db5672c97aa8f0b2", "53696e676c6520626c6f636b206d7367",
          "145ad01dbf824ec7560863dc71e3e0c0" },
        { "RFC3686 #8", 32, 256,
          "f6d66d6bd52d59bb0796365879eff886c66dd51a5b6a99744b50590c87a23884",
          "00faac24" "c1585ef15a43d875",
          "000102030405060708090a0b0c0d0e0f101112131415161718191a1b1c1d1e1f",
          "f05e231b3894612c49ee000b804eb2a9b8306b508f839d6a5530831d9344af1c" },
};

/* DES-CBC: FIPS 81 Appendix C table C1; DES-CBC CM-SP-SECv3.1 I.7 (frozen
 * copy of /repo/test/kat-app/des_test.json.c des_test_json tcId 1) */
static const struct cvec des_vecs[] = {
        { "FIPS81 C1", 8, 192, "0123456789abcdef", "1234567890abcdef",
          "4e6f77206973207468652074696d6520666f7220616c6c20",
          "e5c7cdde872bf27c43e934008c389c0f683788499a7c05f6" },
        { "SECv3.1 I.7", 8, 128, "e6600fd8852ef5ab", "810e528e1c5fda1a",
          "000102030405060708090a0b88416506", "0dda5acbd05e55679f04d1b6413d4eed" },
};
/* 3DES: NIST SP 800-67 Appendix B.1 (TECB; used as single-block CBC with a
 * zero IV, and as CBC with IV = previous ciphertext block); plus frozen
 * copies of /repo/test/kat-app/des_test.json.c des3_test_json tcId 2 and 4 */
#define SP67_KEY "0123456789abcdef" "23456789abcdef01" "456789abcdef0123"
static const struct cvec des3_vecs[] = {
        { "SP800-67 B.1 blk1", 24, 64, SP67_KEY, "0000000000000000", "5468652071756663",
          "a826fd8ce53b855f" },
        { "SP800-67 B.1 blk2", 24, 64, SP67_KEY, "0000000000000000", "6b2062726f776e20",
          "cce21c8112256fe6" },
        { "SP800-67 B.1 blk3", 24, 64, SP67_KEY, "0000000000000000", "666f78206a756d70",
          "68d5c05dd9b6b900" },
        { "des3_test_json 2", 24, 128, "000102030405060708090a0b0c0d0e0f0001020304050607",
          "0001020304050607", "000102030405060708090a0b0c0d0e0f",
          "ddada161e8d79673ed7532e59223cd0d" },
        { "des3_test_json 4", 24, 128, "000102030405060708090a0b0c0d0e0f1011121314151617",
          "0001020304050607", "000102030405060708090a0b0c0d0e0f",
          "894bc3085426a441f27f73ae26abbf74" },
};

/* DOCSIS BPI AES: frozen copies of /repo/test/kat-app/aes_test.c DK1..DK5
 * (CFB only, CBC+CFB, CBC only; 128 and 256 bit keys) */
#define DOCSIS_K128 "e6600fd8852ef5abe6600fd8852ef5ab"
#define DOCSIS_K256 DOCSIS_K128 DOCSIS_K128
#define DOCSIS_IV   "810e528e1c5fda1a810e528e1c5fda1a"
static const struct cvec docsis_aes_vecs[] = {
        { "DOCSIS-AES128 CFB", 16, 56, DOCSIS_K128, DOCSIS_IV, "00010288ee597e",
          "fc68a3556037dc" },
        { "DOCSIS-AES128 CBC+CFB", 16, 152, DOCSIS_K128, DOCSIS_IV,
          "000102030405060708090a0b0c0d0e91d2d19f", "9dd1674bba61101b56756474364f101d44d473" },
        { "DOCSIS-AES128 CBC", 16, 512, SP_K128, SP_IV, SP_PT,
          "7649abac8119b246cee98e9b12e9197d" "5086cb9b507219ee95db113a917678b2"
          "73bed6b8e3c1743b7116e69e22229516" "3ff1caa1681fac09120eca307586e1a7" },
        { "DOCSIS-AES256 CFB", 32, 56, DOCSIS_K256, DOCSIS_IV, "00010288ee597e", "e375f2301f759a" },
        { "DOCSIS-AES256 CBC+CFB", 32, 152, DOCSIS_K256, DOCSIS_IV,
          "000102030405060708090a0b0c0d0e91d2d19f", "d128731fb528b518ab51abc8983dd1eee44359" },
};

/* SM4: GB/T 32907-2016 Appendix A (example 1, and example 2 = 1 000 000
 * iterations); CBC / CTR examples of draft-ribose-cfrg-sm4-10 A.2.2.1 and
 * A.2.5.1 */
#define SM4_KEY "0123456789abcdeffedcba9876543210"
static const struct cvec sm4_cbc_vecs[] = {
        { "draft-ribose-cfrg-sm4 A.2.2.1", 16, 256, SM4_KEY, SP_IV,
          "aaaaaaaabbbbbbbbccccccccddddddddeeeeeeeeffffffffaaaaaaaabbbbbbbb",
          "78ebb11cc40b0a48312aaeb2040244cb4cb7016951909226979b0d15dc6a8f6d" },
};
static const struct cvec sm4_ctr_vecs[] = {
        { "draft-ribose-cfrg-sm4 A.2.5.1", 16, 512, SM4_KEY, SP_IV,
          "aaaaaaaaaaaaaaaabbbbbbbbbbbbbbbbccccccccccccccccdddddddddddddddd"
          "eeeeeeeeeeeeeeeeffffffffffffffffaaaaaaaaaaaaaaaabbbbbbbbbbbbbbbb",
          "ac3236cb970cc20791364c395a1342d1a3cbc1878c6f30cd074cce385cdd70c7"
          "f234bc0e24c11980fd1286310ce37b926e02fcd0faa0baf38b2933851d824514" },
};

/* ------------------------------------------------------------------------- */
/* hash / MAC vectors                                                        */
/* ------------------------------------------------------------------------- */
struct hvec {
        int alg;
        const char *name;
        const char *msg; /* ASCII */
        const char *digest;
};
#define MSG_448 "abcdbcdecdefdefgefghfghighijhijkijkljklmklmnlmnomnopnopq"
#define MSG_896                                                                                    \
        "abcdefghbcdefghicdefghijdefghijkefghijklfghijklmghijklmnhijklmno"                         \
        "ijklmnopjklmnopqklmnopqrlmnopqrsmnopqrstnopqrstu"
static const struct hvec hash_vecs[] = {
        /* FIPS 180-4 examples */
        { REF_SHA1, "SHA1 abc", "abc", "a9993e364706816aba3e25717850c26c9cd0d89d" },
        { REF_SHA1, "SHA1 448", MSG_448, "84983e441c3bd26ebaae4aa1f95129e5e54670f1" },
        { REF_SHA224, "SHA224 abc", "abc",
          "23097d223405d8228642a477bda255b32aadbce4bda0b3f7e36c9da7" },
        { REF_SHA224, "SHA224 448", MSG_448,
          "75388b16512776cc5dba5da1fd890150b0c6455cb4f58b1952522525" },
        { REF_SHA256, "SHA256 abc", "abc",
          "ba7816bf8f01cfea414140de5dae2223b00361a396177a9cb410ff61f20015ad" },
        { REF_SHA256, "SHA256 448", MSG_448,
          "248d6a61d20638b8e5c026930c3e6039a33ce45964ff2167f6ecedd419db06c1" },
        { REF_SHA384, "SHA384 abc", "abc",
          "cb00753f45a35e8bb5a03d699ac65007272c32ab0eded1631a8b605a43ff5bed"
          "8086072ba1e7cc2358baeca134c825a7" },
        { REF_SHA384, "SHA384 896", MSG_896,
          "09330c33f71147e83d192fc782cd1b4753111b173b3b05d22fa08086e3b0f712"
          "fcc7c71a557e2db966c3e9fa91746039" },
        { REF_SHA512, "SHA512 abc", "abc",
          "ddaf35a193617abacc417349ae20413112e6fa4e89a97ea20a9eeee64b55d39a"
          "2192992a274fc1a836ba3c23a3feebbd454d4423643ce80e2a9ac94fa54ca49f" },
        { REF_SHA512, "SHA512 896", MSG_896,
          "8e959b75dae313da8cf4f72814fc143f8f7779c6eb9f7fa17299aeadb6889018"
          "501d289e4900f7e4331b99dec4b5433ac7d329eeb6dd26545e96e55b874be909" },
        /* RFC 1321 A.5 */
        { REF_MD5, "MD5 empty", "", "d41d8cd98f00b204e9800998ecf8427e" },
        { REF_MD5, "MD5 abc", "abc", "900150983cd24fb0d6963f7d28e17f72" },
        { REF_MD5, "MD5 message digest", "message digest", "f96b697d7cb7938d525a2f31aaf161d0" },
        /* GB/T 32905-2016 Appendix A */
        { REF_SM3, "SM3 abc", "abc",
          "66c7f0f462eeedd9d1f2d46bdc10e4e24167c4875cf2f7a2297da02b8f4ba8e0" },
        { REF_SM3, "SM3 abcd x16",
          "abcdabcdabcdabcdabcdabcdabcdabcdabcdabcdabcdabcdabcdabcdabcdabcd",
          "debe9ff92275b8a138604889c18e5a4d6fdb70e5387e5765293dcba39c0c5732" },
};

struct hmvec {
        int alg;
        const char *name;
        const char *key; /* hex; or "*<byte>*<count>" handled by caller */
        const char *msg; /* hex */
        const char *tag;
};
#define HEX_HI_THERE "4869205468657265"
#define HEX_JEFE     "4a656665"
#define HEX_WHAT     "7768617420646f2079612077616e7420666f72206e6f7468696e673f"
/* "Test Using Larger Than Block-Size Key - Hash Key First" */
#define HEX_TEST_LARGER                                                                            \
        "54657374205573696e67204c6172676572205468616e20426c6f636b2d53697a"                         \
        "65204b6579202d2048617368204b6579204669727374"
/* "Test Using Larger Than Block-Size Key and Larger Than One Block-Size Data" */
#define HEX_TEST_LARGER2                                                                           \
        "54657374205573696e67204c6172676572205468616e20426c6f636b2d53697a"                         \
        "65204b657920616e64204c6172676572205468616e204f6e6520426c6f636b2d"                         \
        "53697a652044617461"
#define X10(s) s s s s s s s s s s
#define AA20   X10("aa") X10("aa")
#define AA80   AA20 AA20 AA20 AA20
#define AA131  AA80 AA20 AA20 X10("aa") "aa"
#define DD50   X10("dd") X10("dd") X10("dd") X10("dd") X10("dd")
#define CD50   X10("cd") X10("cd") X10("cd") X10("cd") X10("cd")
#define B0B20  X10("0b") X10("0b")
#define B0B16  X10("0b") "0b0b0b0b0b0b"
#define AA16   X10("aa") "aaaaaaaaaaaa"
static const struct hmvec hmac_vecs[] = {
        /* RFC 2202 */
        { REF_SHA1, "RFC2202 SHA1 #1", B0B20, HEX_HI_THERE,
          "b617318655057264e28bc0b6fb378c8ef146be00" },
        { REF_SHA1, "RFC2202 SHA1 #2", HEX_JEFE, HEX_WHAT,
          "effcdf6ae5eb2fa2d27416d5f184df9c259a7c79" },
        { REF_SHA1, "RFC2202 SHA1 #3", AA20, DD50, "125d7342b9ac11cd91a39af48aa17b4f63f175d3" },
        { REF_SHA1, "RFC2202 SHA1 #6", AA80, HEX_TEST_LARGER,
          "aa4ae5e15272d00e95705637ce8a3b55ed402112" },
        { REF_SHA1, "RFC2202 SHA1 #7", AA80, HEX_TEST_LARGER2,
          "e8e99d0f45237d786d6bbaa7965c7808bbff1a91" },
        { REF_MD5, "RFC2202 MD5 #1", B0B16, HEX_HI_THERE, "9294727a3638bb1c13f48ef8158bfc9d" },
        { REF_MD5, "RFC2202 MD5 #2", HEX_JEFE, HEX_WHAT, "750c783e6ab0b503eaa86e310a5db738" },
        { REF_MD5, "RFC2202 MD5 #3", AA16, DD50, "56be34521d144c88dbb8c733f0e8b3f6" },
        { REF_MD5, "RFC2202 MD5 #6", AA80, HEX_TEST_LARGER, "6b1ab7fe4bd7bf8f0b62e6ce61b9d0cd" },
        { REF_MD5, "RFC2202 MD5 #7", AA80, HEX_TEST_LARGER2, "6f630fad67cda0ee1fb1f562db3aa53e" },
        /* RFC 4231 */
        { REF_SHA224, "RFC4231 #1 224", B0B20, HEX_HI_THERE,
          "896fb1128abbdf196832107cd49df33f47b4b1169912ba4f53684b22" },
        { REF_SHA256, "RFC4231 #1 256", B0B20, HEX_HI_THERE,
          "b0344c61d8db38535ca8afceaf0bf12b881dc200c9833da726e9376c2e32cff7" },
        { REF_SHA384, "RFC4231 #1 384", B0B20, HEX_HI_THERE,
          "afd03944d84895626b0825f4ab46907f15f9dadbe4101ec682aa034c7cebc59c"
          "faea9ea9076ede7f4af152e8b2fa9cb6" },
        { REF_SHA512, "RFC4231 #1 512", B0B20, HEX_HI_THERE,
          "87aa7cdea5ef619d4ff0b4241a1d6cb02379f4e2ce4ec2787ad0b30545e17cde"
          "daa833b7d6b8a702038b274eaea3f4e4be9d914eeb61f1702e696c203a126854" },
        { REF_SHA224, "RFC4231 #2 224", HEX_JEFE, HEX_WHAT,
          "a30e01098bc6dbbf45690f3a7e9e6d0f8bbea2a39e6148008fd05e44" },
        { REF_SHA256, "RFC4231 #2 256", HEX_JEFE, HEX_WHAT,
          "5bdcc146bf60754e6a042426089575c75a003f089d2739839dec58b964ec3843" },
        { REF_SHA384, "RFC4231 #2 384", HEX_JEFE, HEX_WHAT,
          "af45d2e376484031617f78d2b58a6b1b9c7ef464f5a01b47e42ec3736322445e"
          "8e2240ca5e69e2c78b3239ecfab21649" },
        { REF_SHA512, "RFC4231 #2 512", HEX_JEFE, HEX_WHAT,
          "164b7a7bfcf819e2e395fbe73b56e0a387bd64222e831fd610270cd7ea250554"
          "9758bf75c05a994a6d034f65f8f0e6fdcaeab1a34d4a6b4b636e070a38bce737" },
        { REF_SHA224, "RFC4231 #6 224", AA131, HEX_TEST_LARGER,
          "95e9a0db962095adaebe9b2d6f0dbce2d499f112f2d2b7273fa6870e" },
        { REF_SHA256, "RFC4231 #6 256", AA131, HEX_TEST_LARGER,
          "60e431591ee0b67f0d8a26aacbf5b77f8e0bc6213728c5140546040f0ee37f54" },
        { REF_SHA384, "RFC4231 #6 384", AA131, HEX_TEST_LARGER,
          "4ece084485813e9088d2c63a041bc5b44f9ef1012a2b588f3cd11f05033ac4c6"
          "0c2ef6ab4030fe8296248df163f44952" },
        { REF_SHA512, "RFC4231 #6 512", AA131, HEX_TEST_LARGER,
          "80b24263c7c1a3ebb71493c1dd7be8b49b46d1f41b4aeec1121b013783f8f352"
          "6b56d037e05f2598bd0fd2215d6a1e5295e64f73f63f0aec8b915a985d786598" },
        /* GM/T 0042-2015 Appendix D.3 (frozen copy of
         * /repo/test/kat-app/hmac_sm3.json.c tcId 1) */
        { REF_SM3, "GM/T 0042 D.3 HMAC-SM3",
          "0102030405060708090a0b0c0d0e0f101112131415161718191a1b1c1d1e1f202122232425", CD50,
          "220bf579ded555393f0159f66c99877822a3ecf610d1552154b41d44b94db3ae" },
};

/* RFC 3566 section 4; key 000102..0f; msg = 00 01 02 .. (len-1), #7 = 1000 zero bytes */
static const struct { size_t len; int zeros; const char *tag; } xcbc_vecs[] = {
        { 0, 0, "75f0251d528ac01c4573dfd584d79f29" },
        { 3, 0, "5b376580ae2f19afe7219ceef172756f" },
        { 16, 0, "d2a246fa349b68a79998a4394ff7a263" },
        { 20, 0, "47f51b4564966215b8985c63055ed308" },
        { 32, 0, "f54f0ec8d2b9f3d36807734bd5283fd4" },
        { 34, 0, "becbb3bccdb518a30677d5481fb6b4d8" },
        { 1000, 1, "f0dafee895db30253761103b5d84528f" },
};

/* RFC 4493 section 4 (AES-128) and NIST SP 800-38B Appendix D.2 / D.3
 * (AES-192 / AES-256); message = first len bytes of the SP 800-38A plaintext */
static const struct { const char *key; size_t len; const char *tag; } cmac_vecs[] = {
        { SP_K128, 0, "bb1d6929e95937287fa37d129b756746" },
        { SP_K128, 16, "070a16b46b4d4144f79bdd9dd04a287c" },
        { SP_K128, 40, "dfa66747de9ae63030ca32611497c827" },
        { SP_K128, 64, "51f0bebf7e3b9d92fc49741779363cfe" },
        { SP_K192, 0, "d17ddf46adaacde531cac483de7a9367" },
        { SP_K192, 16, "9e99a7bf31e710900662f65e617c5184" },
        { SP_K192, 40, "8a1de5be2eb31aad089a82e6ee908b0e" },
        { SP_K192, 64, "a1d5df0eed790f794d77589659f39a11" },
        { SP_K256, 0, "028962f61b7bf89efc6b551f4667d983" },
        { SP_K256, 16, "28a7023f452e8f82bd4bf28d8c37c35c" },
        { SP_K256, 40, "aaf3d8f1de5640c232f5b169b9c911e6" },
        { SP_K256, 64, "e1992190549f6ed5696a2c056c315410" },
};
static const struct { const char *key, *k1, *k2; } cmac_subkey_vecs[] = {
        { SP_K128, "fbeed618357133667c85e08f7236a8de", "f7ddac306ae266ccf90bc11ee46d513b" },
        { SP_K192, "448a5b1c93514b273ee6439dd4daa296", "8914b63926a2964e7dcc873ba9b5452c" },
        { SP_K256, "cad1ed03299eedac2e9a99808621502f", "95a3da06533ddb585d3533010c42a0d9" },
};

/* RFC 8439: 2.5.2 and Appendix A.3 #1, #5, #6 */
static const struct { const char *key, *msg, *tag; } poly_vecs[] = {
        { "85d6be7857556d337f4452fe42d506a80103808afb0db2fd4abff6af4149f51b",
          /* "Cryptographic Forum Research Group" */
          "43727970746f6772617068696320466f72756d2052657365617263682047726f7570",
          "a8061dc1305136c6c22b8baf0c0127a9" },
        { "0000000000000000000000000000000000000000000000000000000000000000",
          "0000000000000000000000000000000000000000000000000000000000000000"
          "0000000000000000000000000000000000000000000000000000000000000000",
          "00000000000000000000000000000000" },
        { "0200000000000000000000000000000000000000000000000000000000000000",
          "ffffffffffffffffffffffffffffffff", "03000000000000000000000000000000" },
        { "02000000000000000000000000000000ffffffffffffffffffffffffffffffff",
          "02000000000000000000000000000000", "03000000000000000000000000000000" },
};

/* reveng CRC catalogue check values, message "123456789" */
static const struct { int which; const char *name; uint32_t check; } crc_checks[] = {
        { REF_CRC32_ETHERNET_FCS, "CRC-32/ISO-HDLC", 0xcbf43926 },
        { REF_CRC32_WIMAX_OFDMA_DATA, "CRC-32/BZIP2", 0xfc891918 },
        { REF_CRC24_LTE_A, "CRC-24/LTE-A", 0xcde703 },
        { REF_CRC24_LTE_B, "CRC-24/LTE-B", 0x23ef52 },
        { REF_CRC16_X25, "CRC-16/IBM-SDLC (X.25)", 0x906e },
        { REF_CRC16_FP_DATA, "CRC-16/UMTS", 0xfee8 },
        { REF_CRC11_FP_HEADER, "CRC-11/UMTS", 0x061 },
        { REF_CRC10_IUUP_DATA, "CRC-10/ATM", 0x199 },
        { REF_CRC8_WIMAX_OFDMA_HCS, "CRC-8/SMBUS", 0xf4 },
        { REF_CRC7_FP_HEADER, "CRC-7/UMTS", 0x61 },
};

/* ------------------------------------------------------------------------- */
/* frozen literal copies of library KAT vectors (hex), generated once from   */
/* the pinned /repo/test/kat-app sources; origin noted per table             */
/* ------------------------------------------------------------------------- */
/* frozen copy: /repo/test/kat-app/aes_cbcs_test.json.c tcId 1,2,4,5,6,7 */
static const struct cvec cbcs_vecs[] = {
        { "cbcs-1", 16, 5120,
          "2b7e151628aed2a6abf7158809cf4f3c",
          "000102030405060708090a0b0c0d0e0f",
          "6bc1bee22e409f96e93d7e117393172a00000000000000000000000000000000"
          "0000000000000000000000000000000000000000000000000000000000000000"
          "0000000000000000000000000000000000000000000000000000000000000000"
          "0000000000000000000000000000000000000000000000000000000000000000"
          "0000000000000000000000000000000000000000000000000000000000000000"
          "ae2d8a571e03ac9c9eb76fac45af8e5100000000000000000000000000000000"
          "0000000000000000000000000000000000000000000000000000000000000000"
          "0000000000000000000000000000000000000000000000000000000000000000"
          "0000000000000000000000000000000000000000000000000000000000000000"
          "0000000000000000000000000000000000000000000000000000000000000000"
          "30c81c46a35ce411e5fbc1191a0a52ef00000000000000000000000000000000"
          "0000000000000000000000000000000000000000000000000000000000000000"
          "0000000000000000000000000000000000000000000000000000000000000000"
          "0000000000000000000000000000000000000000000000000000000000000000"
          "0000000000000000000000000000000000000000000000000000000000000000"
          "f69f2445df4f9b17ad2b417be66c371000000000000000000000000000000000"
          "0000000000000000000000000000000000000000000000000000000000000000"
          "0000000000000000000000000000000000000000000000000000000000000000"
          "0000000000000000000000000000000000000000000000000000000000000000"
          "0000000000000000000000000000000000000000000000000000000000000000",
          "7649abac8119b246cee98e9b12e9197d00000000000000000000000000000000"
          "0000000000000000000000000000000000000000000000000000000000000000"
          "0000000000000000000000000000000000000000000000000000000000000000"
          "0000000000000000000000000000000000000000000000000000000000000000"
          "0000000000000000000000000000000000000000000000000000000000000000"
          "5086cb9b507219ee95db113a917678b200000000000000000000000000000000"
          "0000000000000000000000000000000000000000000000000000000000000000"
          "0000000000000000000000000000000000000000000000000000000000000000"
          "0000000000000000000000000000000000000000000000000000000000000000"
          "0000000000000000000000000000000000000000000000000000000000000000"
          "73bed6b8e3c1743b7116e69e2222951600000000000000000000000000000000"
          "0000000000000000000000000000000000000000000000000000000000000000"
          "0000000000000000000000000000000000000000000000000000000000000000"
          "0000000000000000000000000000000000000000000000000000000000000000"
          "0000000000000000000000000000000000000000000000000000000000000000"
          "3ff1caa1681fac09120eca307586e1a700000000000000000000000000000000"
          "0000000000000000000000000000000000000000000000000000000000000000"
          "0000000000000000000000000000000000000000000000000000000000000000"
          "0000000000000000000000000000000000000000000000000000000000000000"
          "0000000000000000000000000000000000000000000000000000000000000000" },
        { "cbcs-2", 16, 10240,
          "2b7e151628aed2a6abf7158809cf4f3c",
          "000102030405060708090a0b0c0d0e0f",
          "f7cd12fb4f8e50ab358e56f983539a1a00000000000000000000000000000000"
          "0000000000000000000000000000000000000000000000000000000000000000"
          "0000000000000000000000000000000000000000000000000000000000000000"
          "0000000000000000000000000000000000000000000000000000000000000000"
          "0000000000000000000000000000000000000000000000000000000000000000"
          "fc473c9601fe0187d5de46245c628fba00000000000000000000000000000000"
          "0000000000000000000000000000000000000000000000000000000000000000"
          "0000000000000000000000000000000000000000000000000000000000000000"
          "0000000000000000000000000000000000000000000000000000000000000000"
          "0000000000000000000000000000000000000000000000000000000000000000"
          "ba91178dba5a79b157054d08ba1f30d300000000000000000000000000000000"
          "0000000000000000000000000000000000000000000000000000000000000000"
          "0000000000000000000000000000000000000000000000000000000000000000"
          "0000000000000000000000000000000000000000000000000000000000000000"
          "0000000000000000000000000000000000000000000000000000000000000000"
          "8040e937b0d6348733ddc05b2d581d2a00000000000000000000000000000000"
          "0000000000000000000000000000000000000000000000000000000000000000"
          "0000000000000000000000000000000000000000000000000000000000000000"
          "0000000000000000000000000000000000000000000000000000000000000000"
          "0000000000000000000000000000000000000000000000000000000000000000"
          "7bb6e3d0c8a07a69c85d10a2c339caaf00000000000000000000000000000000"
          "0000000000000000000000000000000000000000000000000000000000000000"
          "0000000000000000000000000000000000000000000000000000000000000000"
          "0000000000000000000000000000000000000000000000000000000000000000"
          "0000000000000000000000000000000000000000000000000000000000000000"
          "40dcc7cbff187d510628281f3a9c187d00000000000000000000000000000000"
          "0000000000000000000000000000000000000000000000000000000000000000"
          "0000000000000000000000000000000000000000000000000000000000000000"
          "0000000000000000000000000000000000000000000000000000000000000000"
          "0000000000000000000000000000000000000000000000000000000000000000"
          "5bb5e920c2ae177fd1657a75cf21a01e00000000000000000000000000000000"
          "0000000000000000000000000000000000000000000000000000000000000000"
          "0000000000000000000000000000000000000000000000000000000000000000"
          "0000000000000000000000000000000000000000000000000000000000000000"
          "0000000000000000000000000000000000000000000000000000000000000000"
          "171bf7e8625faf347fd8184a94f2339000000000000000000000000000000000"
          "0000000000000000000000000000000000000000000000000000000000000000"
          "0000000000000000000000000000000000000000000000000000000000000000"
          "0000000000000000000000000000000000000000000000000000000000000000"
          "0000000000000000000000000000000000000000000000000000000000000000",
          "f08f91131101dcbbcdf99592dabf2a8600000000000000000000000000000000"
          "0000000000000000000000000000000000000000000000000000000000000000"
          "0000000000000000000000000000000000000000000000000000000000000000"
          "0000000000000000000000000000000000000000000000000000000000000000"
          "0000000000000000000000000000000000000000000000000000000000000000"
          "ea8da608c8b565829343b70e1436b4cf00000000000000000000000000000000"
          "0000000000000000000000000000000000000000000000000000000000000000"
          "0000000000000000000000000000000000000000000000000000000000000000"
          "0000000000000000000000000000000000000000000000000000000000000000"
          "0000000000000000000000000000000000000000000000000000000000000000"
          "d811ab215b64b8c5ee27936659d91dc900000000000000000000000000000000"
          "0000000000000000000000000000000000000000000000000000000000000000"
          "0000000000000000000000000000000000000000000000000000000000000000"
          "0000000000000000000000000000000000000000000000000000000000000000"
          "0000000000000000000000000000000000000000000000000000000000000000"
          "849d03bdabce6a14767317e3b3e570e800000000000000000000000000000000"
          "0000000000000000000000000000000000000000000000000000000000000000"
          "0000000000000000000000000000000000000000000000000000000000000000"
          "0000000000000000000000000000000000000000000000000000000000000000"
          "0000000000000000000000000000000000000000000000000000000000000000"
          "a2a8ceb0f6c4c5b58e22ef33df18424000000000000000000000000000000000"
          "0000000000000000000000000000000000000000000000000000000000000000"
          "0000000000000000000000000000000000000000000000000000000000000000"
          "0000000000000000000000000000000000000000000000000000000000000000"
          "0000000000000000000000000000000000000000000000000000000000000000"
          "56c4b97f609e8b45c1bfa7fa1b3e025d00000000000000000000000000000000"
          "0000000000000000000000000000000000000000000000000000000000000000"
          "0000000000000000000000000000000000000000000000000000000000000000"
          "0000000000000000000000000000000000000000000000000000000000000000"
          "0000000000000000000000000000000000000000000000000000000000000000"
          "b3049330f5ff8eb60afb41fe09a590c700000000000000000000000000000000"
          "0000000000000000000000000000000000000000000000000000000000000000"
          "0000000000000000000000000000000000000000000000000000000000000000"
          "0000000000000000000000000000000000000000000000000000000000000000"
          "0000000000000000000000000000000000000000000000000000000000000000"
          "22abaa2289d83c4e461893bf1ace775900000000000000000000000000000000"
          "0000000000000000000000000000000000000000000000000000000000000000"
          "0000000000000000000000000000000000000000000000000000000000000000"
          "0000000000000000000000000000000000000000000000000000000000000000"
          "0000000000000000000000000000000000000000000000000000000000000000" },
        { "cbcs-4", 16, 640,
          "2b7e151628aed2a6abf7158809cf4f3c",
          "000102030405060708090a0b0c0d0e0f",
          "6bc1bee22e409f96e93d7e117393172a00000000000000000000000000000000"
          "0000000000000000000000000000000000000000000000000000000000000000"
          "00000000000000000000000000000000",
          "7649abac8119b246cee98e9b12e9197d00000000000000000000000000000000"
          "0000000000000000000000000000000000000000000000000000000000000000"
          "00000000000000000000000000000000" },
        { "cbcs-5", 16, 2432,
          "2b7e151628aed2a6abf7158809cf4f3c",
          "000102030405060708090a0b0c0d0e0f",
          "6bc1bee22e409f96e93d7e117393172a00000000000000000000000000000000"
          "0000000000000000000000000000000000000000000000000000000000000000"
          "0000000000000000000000000000000000000000000000000000000000000000"
          "0000000000000000000000000000000000000000000000000000000000000000"
          "0000000000000000000000000000000000000000000000000000000000000000"
          "ae2d8a571e03ac9c9eb76fac45af8e5100000000000000000000000000000000"
          "0000000000000000000000000000000000000000000000000000000000000000"
          "0000000000000000000000000000000000000000000000000000000000000000"
          "0000000000000000000000000000000000000000000000000000000000000000"
          "00000000000000000000000000000000",
          "7649abac8119b246cee98e9b12e9197d00000000000000000000000000000000"
          "0000000000000000000000000000000000000000000000000000000000000000"
          "0000000000000000000000000000000000000000000000000000000000000000"
          "0000000000000000000000000000000000000000000000000000000000000000"
          "0000000000000000000000000000000000000000000000000000000000000000"
          "5086cb9b507219ee95db113a917678b200000000000000000000000000000000"
          "0000000000000000000000000000000000000000000000000000000000000000"
          "0000000000000000000000000000000000000000000000000000000000000000"
          "0000000000000000000000000000000000000000000000000000000000000000"
          "00000000000000000000000000000000" },
        { "cbcs-6", 16, 5248,
          "5a2b4f1f4bab08eaac78f74bca3b4fa9",
          "8438026b5eb6c5b58a9af020957a4610",
          "0dbce98c3107596566cb4fa05d6cf96300000000000000000000000000000000"
          "0000000000000000000000000000000000000000000000000000000000000000"
          "0000000000000000000000000000000000000000000000000000000000000000"
          "0000000000000000000000000000000000000000000000000000000000000000"
          "0000000000000000000000000000000000000000000000000000000000000000"
          "02dab36142a61f3849a1559be1f6eed900000000000000000000000000000000"
          "0000000000000000000000000000000000000000000000000000000000000000"
          "0000000000000000000000000000000000000000000000000000000000000000"
          "0000000000000000000000000000000000000000000000000000000000000000"
          "0000000000000000000000000000000000000000000000000000000000000000"
          "cbd14210132480a7a1d9ebfe3ad7ef4800000000000000000000000000000000"
          "0000000000000000000000000000000000000000000000000000000000000000"
          "0000000000000000000000000000000000000000000000000000000000000000"
          "0000000000000000000000000000000000000000000000000000000000000000"
          "0000000000000000000000000000000000000000000000000000000000000000"
          "2e814853ea350c1a29ddc3edc471559700000000000000000000000000000000"
          "0000000000000000000000000000000000000000000000000000000000000000"
          "0000000000000000000000000000000000000000000000000000000000000000"
          "0000000000000000000000000000000000000000000000000000000000000000"
          "0000000000000000000000000000000000000000000000000000000000000000"
          "293bb97a9426ba3aa664661a1132b76e",
          "e5b9db9d79539892569a90d2eac237b900000000000000000000000000000000"
          "0000000000000000000000000000000000000000000000000000000000000000"
          "0000000000000000000000000000000000000000000000000000000000000000"
          "0000000000000000000000000000000000000000000000000000000000000000"
          "0000000000000000000000000000000000000000000000000000000000000000"
          "39a26108c415474118f57356ee366fcc00000000000000000000000000000000"
          "0000000000000000000000000000000000000000000000000000000000000000"
          "0000000000000000000000000000000000000000000000000000000000000000"
          "0000000000000000000000000000000000000000000000000000000000000000"
          "0000000000000000000000000000000000000000000000000000000000000000"
          "7ce04f0bce32cf588895878af800d33d00000000000000000000000000000000"
          "0000000000000000000000000000000000000000000000000000000000000000"
          "0000000000000000000000000000000000000000000000000000000000000000"
          "0000000000000000000000000000000000000000000000000000000000000000"
          "0000000000000000000000000000000000000000000000000000000000000000"
          "80b0d3511c1e58652d7c9470cf320fb700000000000000000000000000000000"
          "0000000000000000000000000000000000000000000000000000000000000000"
          "0000000000000000000000000000000000000000000000000000000000000000"
          "0000000000000000000000000000000000000000000000000000000000000000"
          "0000000000000000000000000000000000000000000000000000000000000000"
          "9f533a473b4d99eb86d2cf6a6c5042e5" },
        { "cbcs-7", 16, 128,
          "5a2b4f1f4bab08eaac78f74bca3b4fa9",
          "8438026b5eb6c5b58a9af020957a4610",
          "b24c2d5caf35ce9676de0fc777871f7d",
          "15dab3cf2df2620f5366c82e3b25a2d7" },
};

/* frozen copy: /repo/test/kat-app/ctr_test.json.c ctr_bit_test_json (3GPP 128-EEA2 sets; trailing bits as in the library KAT) */
static const struct cvec ctrbit_vecs[] = {
        { "ctrbit-1", 16, 253,
          "d3c5d592327fb11c4035c6680af8c6d1",
          "398a59b4ac0000000000000000000000",
          "981ba6824c1bfb1ab485472029b71d808ce33e2cc3c0b5fc1f3de8a6dc66b1f7",
          "e9fed8a63d155304d71df20bf3e82214b20ed7dad2f233dc3c22d7bdeeed8e7f" },
        { "ctrbit-2", 16, 798,
          "2bd6459f82c440e0952c49104805ff48",
          "c675a64b640000000000000000000000",
          "7ec61272743bf1614726446a6c38ced166f6ca76eb5430044286346cef130f92"
          "922b03450d3a9975e5bd2ea0eb55ad8e1b199e3ec4316020e9a1b285e7627953"
          "59b7bdfd39bef4b2484583d5afe082aee638bf5fd5a606193901a08f4ab41aab"
          "9b134883",
          "5961605353c64bdca15b195e288553a910632506d6200aa790c4c806c99904cf"
          "2445cc50bb1cf168a49673734e081b57e324ce5259c0e78d4cd97b870976503c"
          "0943f2cb5ae8f052c7b7d392239587b8956086bcab18836042e2e6ce42432a17"
          "105c53d3" },
        { "ctrbit-3", 16, 310,
          "0a8b6bd8d9b08b08d64e32d1817777fb",
          "544d49cd200000000000000000000000",
          "fd40a41d370a1f65745095687d47ba1d36d2349e23f644392c8ea9c49d40c132"
          "71aff264d0f24b",
          "75750d37b4bba2a4dedb34235bd68c6645acdaaca48138a3b0c471e2a7041a57"
          "6423d2927287f3" },
        { "ctrbit-4", 16, 1022,
          "aa1f95aea533bcb32eb63bf52d8f831a",
          "72d8c671840000000000000000000000",
          "fb1b96c5c8badfb2e8e8edfde78e57f2ad81e74103fc430a534dcc37afcec70e"
          "1517bb06f27219dae49022ddc47a068de4c9496a951a6b09edbdc864c7adbd74"
          "0ac50c022f3082bafd22d78197c5d508b977bca13f32e652e74ba728576077ce"
          "628c535e87dc6077ba07d29068590c8cb5f1088e082cfa0ec961302d69cf3d47",
          "dfb440acb3773549efc04628aeb8d8156275230bdc690d94b00d8d95f28c4b56"
          "307f60f4ca55eba661ebba72ac808fa8c49e26788ed04a5d606cb418de74878b"
          "9a22f8ef29590bc4eb57c9faf7c41524a885b8979c423f2f8f8e0592a9879201"
          "be7ff9777a162ab810feb324ba74c4c156e04d39097209653ac33e5a5f2d8867" },
        { "ctrbit-5", 16, 1245,
          "9618ae46891f86578eebe90ef7a1202e",
          "c675a64b640000000000000000000000",
          "8daa17b1ae050529c6827f28c0ef6a1242e93f8b314fb18a77f790ae049fedd6"
          "12267fecaefc450174d76d9f9aa7755a30cd90a9a5874bf48eaf70eea3a62a25"
          "0a8b6bd8d9b08b08d64e32d1817777fb544d49cd49720e219dbf8bbed33904e1"
          "fd40a41d370a1f65745095687d47ba1d36d2349e23f644392c8ea9c49d40c132"
          "71aff264d0f24841d6465f0996ff84e65fc517c53efc3363c38492af",
          "919c8c33d66789703d05a0d7ce82a2aeac4ee76c0f4da050335e8a84e7897ba5"
          "df2f36bd513e3d0c8578c7a0fcf043e03aa3a39fbaad7d15be074faa5d9029f7"
          "1fb457b647834714b0e18f117fca10677945096c8c5f326ba8d6095eb29c3e36"
          "cf245d1622aafe921f7566c4f5d644f2f1fc0ec684ddb21349747622e209295d"
          "27ff3f95623371d49b147c0af486171f22cd04b1cbeb2658223e693f" },
        { "ctrbit-6", 16, 3861,
          "54f4e2e04c83786eec8fb5abe8e36566",
          "aca4f50f580000000000000000000000",
          "40981ba6824c1bfb4286b299783daf442c099f7ab0f58d5c8e46b104f08f01b4"
          "1ab485472029b71d36bd1a3d90dc3a41b46d51672ac4c9663a2be063da4bc8d2"
          "808ce33e2cccbfc634e1b259060876a0fbb5a437ebcc8d31c19e4454318745e3"
          "fa16bb11adae248879fe52db2543e53cf445d3d828ce0bf5c560593d97278a59"
          "762dd0c2c9cd68d4496a792508614014b13b6aa51128c18cd6a90b87978c2ff1"
          "cabe7d9f898a411bfdb84f68f6727b1499cdd30df0443ab4a66653330bcba110"
          "5e4cec034c73e605b4310eaaadcfd5b0ca27ffd89d144df4792759427c9cc1f8"
          "cd8c87202364b8a687954cb05a8d4e2d99e73db160deb180ad0841e96741a5d5"
          "9fe4189f15420026fe4cd12104932fb38f735340438aaf7eca6fd5cfd3a195ce"
          "5abe65272af607ada1be65a6b4c9c0693234092c4d018f1756c6db9dc8a6d80b"
          "888138616b681262f954d0e7711748780d92291d86299972db741cfa4f37b8b5"
          "6cdb18a7ca8218e86e4b4b716a4d04371fbec262fc5ad0b3819b187b97e55b1a"
          "4d7c19ee24c8b4d7723cfedf045b8acae4869517d80e50615d9035d5d9c5a40a"
          "f602280b542597b0cb18619eeb35925759d195e100e8e4aa0c38a3c2abe0f3d8"
          "ff04f3c33c295069c23694b5bbeacdd542e28e8a94edb9119f412d054be1fa72"
          "00b097",
          "5cb72c6edc878f1566e10253afc364c9fa540d914db94cbee275d0917ca6af0d"
          "77acb4ef3bbe1a722b2ef5bd1d4b8e2aa5024ec1388a201e7bce7920aec61589"
          "5f763a5564dcc4c482a2ee1d8bfecc4498eca83fbb75f9ab530e0dafbede2fa5"
          "895b82991b6277c529e0f2529d7f79606be96706296dedfa9d7412b616958cb5"
          "63c678c02825c30d0aee77c4c146d2765412421a808d13cec819694c75ad572e"
          "9b973d948b81a9337c3b2a17192e22c2069f7ed1162af44cdea817603665e807"
          "ce40c8e0dd9d6394dc6e31153fe1955c47afb51f2617ee0c5e3b8ef1ad7574ed"
          "343edc2743cc94c990e1f1fd264253c178dea739c0befeebcd9f9b76d49c1015"
          "c9fecf50e53b8b5204dbcd3eed863855dabcdcc94b31e318021568855c8b9e52"
          "a981957a112827f978ba960f1447911b317b5511fbcc7fb13ac153db74251117"
          "e4861eb9e83bffffc4eb7755579038e57924b1f78b3e1ad90bab2a07871b72db"
          "5eef96c334044966db0c37cafd1a89e5646a3580eb6465f121dce9cb88d85b96"
          "cf23ccccd4280767bee8eeb23d8652461db6493103003baf89f5e18261ea43c8"
          "4a92ebffffe4909dc46c5192f825f770600b9602c557b5f8b431a79d45977dd9"
          "c41b863da9e142e90020cfd074d6927b7ab3b6725d1a6f3f98b9c9daa8982aff"
          "06782f" },
        { "ctrbit-7", 24, 284,
          "02bf391ee8ecb159b959617b0965279bf59b60a786d3e0fe",
          "0007bdfd5cbd60278dcc091200000001",
          "000102030405060708090a0b0c0d0e0f101112131415161718191a1b1c1d1e1f"
          "2021222f",
          "96893fc55e5c722f540b7dd1ddf7e758d288bc95c69165884536c811662f2188"
          "abee093f" },
        { "ctrbit-8", 32, 124,
          "776beff2851db06f4c8a0542c8696f6c6a81af1eec96b4d37fc1d689e6c1c104",
          "00000060db5672c97aa8f0b200000001",
          "53696e676c6520626c6f636b206d736f",
          "145ad01dbf824ec7560863dc71e3e0cf" },
};

/* frozen copy: /repo/test/kat-app/des_test.json.c des_docsis_test_json (CM-SP-SECv3.1 I.7) */
static const struct cvec docsis_des_vecs[] = {
        { "docsis-des-1", 8, 128,
          "e6600fd8852ef5ab",
          "810e528e1c5fda1a",
          "000102030405060708090a0b88416506",
          "0dda5acbd05e55679f04d1b6413d4eed" },
        { "docsis-des-2", 8, 152,
          "e6600fd8852ef5ab",
          "810e528e1c5fda1a",
          "000102030405060708090a0b0c0d0e91d2d19f",
          "0dda5acbd05e5567514746868a71e577efac88" },
        { "docsis-des-3", 8, 24,
          "e6600fd8852ef5ab",
          "514746868a71e577",
          "d2d19f",
          "efac88" },
};

/* frozen copy: /repo/test/kat-app/cmac_test.json.c cmac_3gpp_test_json (3GPP 128-EIA2), message length in bits */
static const struct mvec cmac3gpp_vecs[] = {
        { "cmac3gpp-1", 16, 122, 4,
          "2bd6459f82c5b300952c49104881ff48",
          "38a6f056c00000003332346263393840",
          "118c6eb8" },
        { "cmac3gpp-2", 16, 128, 4,
          "d3c5d592327fb11c4035c6680af8c6d1",
          "398a59b4d4000000484583d5afe082ae",
          "b93787e6" },
        { "cmac3gpp-3", 16, 318, 4,
          "7e5e94431e11d73828d739cc6ced4573",
          "36af6144c4000000b3d3c9170a4e1632f60f861013d22d84b726b6a278d802d1"
          "eeaf1321ba5929dc",
          "1f60b01d" },
        { "cmac3gpp-4", 16, 575, 4,
          "d3419be821087acd02123a9248033359",
          "c7590ea9b8000000bbb057038809496bcff86d6fbc8ce5b135a06b166054f2d5"
          "65be8ace75dc851e0bcdd8f07141c495872fb5d8c0c66a8b6da556663e4e4612"
          "05d84580bee5bc7e",
          "6846a2f0" },
        { "cmac3gpp-5", 16, 832, 4,
          "83fd23a244a74cf358da3019f1722635",
          "36af61447c00000035c68716633c66fb750c266865d53c11ea05b1e9fa49c839"
          "8d48e1efa5909d3947902837f5ae96d5a05bc8d61ca8dbef1b13a4b4abfe4fb1"
          "006045b674bb54729304c382be53a5af05556176f6eaa2ef1d05e4b083181ee6"
          "74cda5a485f74d7a",
          "e657e182" },
        { "cmac3gpp-6", 16, 447, 4,
          "6832a65cff4473621ebdd4ba26a921fe",
          "36af6144c0000000d3c53839626820717765667620323837636240981ba6824c"
          "1bfb1ab485472029b71d808ce33e2cc3c0b5fc1f3de8a6dc",
          "f0668c1e" },
        { "cmac3gpp-7", 16, 2622, 4,
          "5d0a80d8134ae19677824b671e838af4",
          "7827fab22c00000070dedf2dc42c5cbd3a96f8a0b11418b3608d5733604a2cd3"
          "6aabc70ce3193bb5153be2d3c06dfdb2d16e9c357158be6a41d6b861e491db3f"
          "bfeb518efcf048d7d58953730ff30c9ec470ffcd663dc34201c36addc0111c35"
          "b38afee7cfdb582e3731f8b4baa8d1a89c06e81199a9716227be344efcb436dd"
          "d0f096c064c3b5e2c399993fc77394f9e09720a811850ef23b2ee05d9e617360"
          "9d86e1c0c18ea51a012a00bb413b9cb8188a703cd6bae31cc67b34b1b00019e6"
          "a2b2a690f02671fe7c9ef8dec0094e533763478d58d2c5f5b827a0148c5948a9"
          "6931acf84f465a64e62ce74007e991e37ea823fa0fb21923b79905b733b631e6"
          "c7d6860a3831ac351a9c730c52ff72d9d308eedbab21fde143a0ea17e23edc1f"
          "74cbb3638a2033aaa15464eaa733385dbbeb6fd73509b857e6a419dca1d8907a"
          "f977fbac4dfa35ec",
          "f4cc8fa3" },
};

/* frozen copy: /repo/test/kat-app/ghash_test.json.c */
static const struct mvec ghash_vecs[] = {
        { "ghash-1", 16, 128, 16,
          "a1f6258c877d5fcd8964484538bfc92c",
          "000102030405060708090a0b0c0d0e0f",
          "9ee5a51fbe28a1153ef196f50bbf03ca" },
        { "ghash-2", 16, 256, 12,
          "1f0a6dcc67b1872298227791dda19b6a",
          "000102030405060708090a0b0c0d0e0f101112131415161718191a1b1c1d1e1f",
          "b540da44a38c9c2b958e4b0b" },
        { "ghash-3", 16, 8, 16,
          "1f0a6dcc67b1872298227791dda19b6a",
          "05",
          "e6ce47b5fbf2ef3751f15753ad564fed" },
        { "ghash-4", 16, 432, 16,
          "1f0f8a3aca642edeb1df8a529a2976ee",
          "9bb5929fa7aa83fd0cd1833a8ed54dda6aafa1c7a1323ad4929a2c83c6279259"
          "289011de194ed516ef4f72eb7918d5b1c522401492a2",
          "8ba53f5fd70e557c30d4f2e11a4ff8c7" },
};

/* ------------------------------------------------------------------------- */
/* 1. published / frozen vectors                                             */
/* ------------------------------------------------------------------------- */
enum { M_ECB, M_CBC, M_CFB, M_CTR, M_DES, M_3DES, M_DOCSIS_AES, M_DOCSIS_DES, M_SM4_CBC, M_SM4_CTR };

static void
run_mode(int mode, int enc, const uint8_t *key, size_t klen, const uint8_t *iv, size_t ivlen,
         const uint8_t *in, uint8_t *out, size_t len)
{
        switch (mode) {
        case M_ECB: ref_aes_ecb(enc, key, (int) klen, in, out, len); break;
        case M_CBC: ref_aes_cbc(enc, key, (int) klen, iv, in, out, len); break;
        case M_CFB: ref_aes_cfb128(enc, key, (int) klen, iv, in, out, len); break;
        case M_CTR: ref_aes_ctr(key, (int) klen, iv, (int) ivlen, in, out, len); break;
        case M_DES: ref_des_cbc(enc, key, iv, in, out, len); break;
        case M_3DES: ref_3des_cbc(enc, key, iv, in, out, len); break;
        case M_DOCSIS_AES: ref_docsis_aes(enc, key, (int) klen, iv, in, out, len); break;
        case M_DOCSIS_DES: ref_docsis_des(enc, key, iv, in, out, len); break;
        case M_SM4_CBC: ref_sm4_cbc(enc, key, iv, in, out, len); break;
        case M_SM4_CTR: ref_sm4_ctr(key, iv, (int) ivlen, in, out, len); break;
        }
}

/* encrypt pt -> ct, decrypt ct -> pt, and both again in place */
static void
test_cvecs(const char *gname, int mode, const struct cvec *v, size_t nv)
{
        size_t i;

        grp_begin(gname);
        for (i = 0; i < nv; i++) {
                const size_t klen = unhex(v[i].key, B_key);
                const size_t ivlen = unhex(v[i].iv, B_iv);
                const size_t len = unhex(v[i].pt, B_in);
                const size_t clen = unhex(v[i].ct, B_exp);

                if (klen != v[i].klen || len != clen || len * 8 != v[i].msgbits) {
                        printf("  bad vector literal %s\n", v[i].name);
                        grp_fail++;
                        continue;
                }
                memset(B_out, 0xA5, len + 16);
                run_mode(mode, 1, B_key, klen, B_iv, ivlen, B_in, B_out, len);
                expect(v[i].name, 1, 0, B_out, B_exp, len);
                memset(B_out, 0xA5, len + 16);
                run_mode(mode, 0, B_key, klen, B_iv, ivlen, B_exp, B_out, len);
                expect(v[i].name, 0, 0, B_out, B_in, len);
                memcpy(B_tmp, B_in, len);
                run_mode(mode, 1, B_key, klen, B_iv, ivlen, B_tmp, B_tmp, len);
                expect(v[i].name, 1, 1, B_tmp, B_exp, len);
                memcpy(B_tmp, B_exp, len);
                run_mode(mode, 0, B_key, klen, B_iv, ivlen, B_tmp, B_tmp, len);
                expect(v[i].name, 0, 1, B_tmp, B_in, len);
        }
        grp_end();
}
#define NV(a) (sizeof(a) / sizeof((a)[0]))

static void
test_aes_block_and_sm4(void)
{
        uint8_t k[32], p[16], c[16], e[16], t[16];
        int i;

        grp_begin("vec-aes-block(FIPS197-C)");
        /* FIPS 197 Appendix C.1/C.2/C.3 */
        for (i = 0; i < 32; i++)
                k[i] = (uint8_t) i;
        unhex("00112233445566778899aabbccddeeff", p);
        {
                static const char *ct[3] = { "69c4e0d86a7b0430d8cdb78070b4c55a",
                                             "dda97ca4864cdfe06eaf70a0ec0d7191",
                                             "8ea2b7ca516745bfeafc49904b496089" };
                for (i = 0; i < 3; i++) {
                        unhex(ct[i], e);
                        ref_aes_block(1, k, 16 + 8 * i, p, c);
                        expect("enc", i, 0, c, e, 16);
                        ref_aes_block(0, k, 16 + 8 * i, e, t);
                        expect("dec", i, 0, t, p, 16);
                        memcpy(t, p, 16);
                        ref_aes_block(1, k, 16 + 8 * i, t, t);
                        expect("enc-inplace", i, 0, t, e, 16);
                }
        }
        grp_end();

        grp_begin("vec-sm4-ecb(GB/T32907-A)");
        unhex(SM4_KEY, k);
        unhex(SM4_KEY, p);
        unhex("681edf34d206965e86b3e94f536e4246", e);
        ref_sm4_ecb(1, k, p, c, 16);
        expect("example1 enc", 0, 0, c, e, 16);
        ref_sm4_ecb(0, k, e, t, 16);
        expect("example1 dec", 0, 0, t, p, 16);
        /* example 2: 1 000 000 iterations; done as 1000 in-place calls over
         * nothing but the same block (ECB of one block) */
        memcpy(t, p, 16);
        for (i = 0; i < 1000000; i++)
                ref_sm4_ecb(1, k, t, t, 16);
        unhex("595298c7c6fd271f0402f804c33d3f66", e);
        expect("example2 1e6 iterations", 0, 0, t, e, 16);
        /* two identical blocks in ECB give two identical outputs */
        memcpy(B_in, p, 16);
        memcpy(B_in + 16, p, 16);
        ref_sm4_ecb(1, k, B_in, B_out, 32);
        unhex("681edf34d206965e86b3e94f536e4246" "681edf34d206965e86b3e94f536e4246", B_exp);
        expect("2 blocks", 0, 0, B_out, B_exp, 32);
        grp_end();
}

static void
test_chacha_vectors(void)
{
        uint8_t key[32], nonce[12];
        size_t len;
        int i;

        grp_begin("vec-chacha20(RFC8439)");
        for (i = 0; i < 32; i++)
                key[i] = (uint8_t) i;
        /* 2.3.2 block function: keystream of block counter 1 */
        unhex("000000090000004a00000000", nonce);
        memset(B_in, 0, 64);
        ref_chacha20(key, nonce, 1, B_in, B_out, 64);
        unhex("10f1e7e4d13b5915500fdd1fa32071c4c7d1f4c733c068030422aa9ac3d46c4e"
              "d2826446079faa0914c2d705d98b02a2b5129cd1de164eb9cbd083e8a2503c4e", B_exp);
        expect("2.3.2", 0, 0, B_out, B_exp, 64);
        /* 2.4.2 encryption */
        unhex("000000000000004a00000000", nonce);
        len = strlen("Ladies and Gentlemen of the class of '99: If I could offer you only one "
                     "tip for the future, sunscreen would be it.");
        memcpy(B_in, "Ladies and Gentlemen of the class of '99: If I could offer you only one "
                     "tip for the future, sunscreen would be it.", len);
        unhex("6e2e359a2568f98041ba0728dd0d6981e97e7aec1d4360c20a27afccfd9fae0b"
              "f91b65c5524733ab8f593dabcd62b3571639d624e65152ab8f530c359f0861d8"
              "07ca0dbf500d6a6156a38e088a22b65e52bc514d16ccf806818ce91ab7793736"
              "5af90bbf74a35be6b40b8eedf2785e42874d", B_exp);
        ref_chacha20(key, nonce, 1, B_in, B_out, len);
        expect("2.4.2", (long) len, 0, B_out, B_exp, len);
        memcpy(B_tmp, B_in, len);
        ref_chacha20(key, nonce, 1, B_tmp, B_tmp, len);
        expect("2.4.2 in place", (long) len, 0, B_tmp, B_exp, len);
        ref_chacha20(key, nonce, 1, B_exp, B_out, len);
        expect("2.4.2 decrypt", (long) len, 0, B_out, B_in, len);
        /* A.2 #1: zero key, zero nonce, counter 0 */
        memset(key, 0, 32);
        memset(nonce, 0, 12);
        memset(B_in, 0, 64);
        ref_chacha20(key, nonce, 0, B_in, B_out, 64);
        unhex("76b8e0ada0f13d90405d6ae55386bd28bdd219b8a08ded1aa836efcc8b770dc7"
              "da41597c5157488d7724e03fb8d84a376a43b8f41518a11cc387b669b2ee6586", B_exp);
        expect("A.2 #1", 0, 0, B_out, B_exp, 64);
        grp_end();
}

static void
test_hash_hmac_vectors(void)
{
        size_t i;
        uint8_t dg[64];

        grp_begin("vec-hash(FIPS180,RFC1321,GB/T32905)");
        for (i = 0; i < NV(hash_vecs); i++) {
                const size_t dl = unhex(hash_vecs[i].digest, B_exp);

                if ((int) dl != ref_hash_size(hash_vecs[i].alg)) {
                        printf("  bad literal %s\n", hash_vecs[i].name);
                        grp_fail++;
                }
                ref_hash(hash_vecs[i].alg, (const uint8_t *) hash_vecs[i].msg,
                         strlen(hash_vecs[i].msg), dg);
                expect(hash_vecs[i].name, 0, 0, dg, B_exp, dl);
        }
        {
                static const int sz[] = { 20, 28, 32, 48, 64, 16, 32 };
                static const int bl[] = { 64, 64, 64, 128, 128, 64, 64 };
                int a;

                for (a = REF_SHA1; a <= REF_SM3; a++) {
                        expect_u32("hash_size", a, (uint32_t) ref_hash_size(a), (uint32_t) sz[a]);
                        expect_u32("hash_block", a, (uint32_t) ref_hash_block(a), (uint32_t) bl[a]);
                }
        }
        grp_end();

        grp_begin("vec-hmac(RFC2202,RFC4231,GM/T0042)");
        for (i = 0; i < NV(hmac_vecs); i++) {
                const size_t kl = unhex(hmac_vecs[i].key, B_key);
                const size_t ml = unhex(hmac_vecs[i].msg, B_in);
                const size_t tl = unhex(hmac_vecs[i].tag, B_exp);

                if ((int) tl != ref_hash_size(hmac_vecs[i].alg)) {
                        printf("  bad literal %s\n", hmac_vecs[i].name);
                        grp_fail++;
                }
                ref_hmac(hmac_vecs[i].alg, B_key, kl, B_in, ml, dg);
                expect(hmac_vecs[i].name, (long) kl, (long) ml, dg, B_exp, tl);
        }
        grp_end();
}

static void
test_mac_vectors(void)
{
        uint8_t key[32], tag[16], k1[16], k2[16], k3[16];
        size_t i, j;

        grp_begin("vec-xcbc(RFC3566)");
        for (j = 0; j < 16; j++)
                key[j] = (uint8_t) j;
        for (i = 0; i < NV(xcbc_vecs); i++) {
                for (j = 0; j < xcbc_vecs[i].len; j++)
                        B_in[j] = xcbc_vecs[i].zeros ? 0 : (uint8_t) j;
                unhex(xcbc_vecs[i].tag, B_exp);
                ref_aes_xcbc_mac(key, B_in, xcbc_vecs[i].len, tag);
                expect("xcbc", (long) xcbc_vecs[i].len, 0, tag, B_exp, 16);
        }
        /* key derivation by definition: K1..K3 = E_K(0x01..), (0x02..), (0x03..) */
        ref_aes_xcbc_keys(key, k1, k2, k3);
        for (j = 1; j <= 3; j++) {
                uint8_t c[16], e[16];

                memset(c, (int) j, 16);
                ref_aes_block(1, key, 16, c, e);
                expect("xcbc-keys", (long) j, 0, j == 1 ? k1 : j == 2 ? k2 : k3, e, 16);
        }
        grp_end();

        grp_begin("vec-cmac(RFC4493,SP800-38B)");
        unhex(SP_PT, B_in);
        for (i = 0; i < NV(cmac_vecs); i++) {
                const size_t kl = unhex(cmac_vecs[i].key, key);

                unhex(cmac_vecs[i].tag, B_exp);
                ref_aes_cmac(key, (int) kl, B_in, 8 * (uint64_t) cmac_vecs[i].len, tag);
                expect("cmac", (long) kl, (long) cmac_vecs[i].len, tag, B_exp, 16);
        }
        for (i = 0; i < NV(cmac_subkey_vecs); i++) {
                const size_t kl = unhex(cmac_subkey_vecs[i].key, key);

                ref_aes_cmac_subkeys(key, (int) kl, k1, k2);
                unhex(cmac_subkey_vecs[i].k1, B_exp);
                expect("cmac K1", (long) kl, 0, k1, B_exp, 16);
                unhex(cmac_subkey_vecs[i].k2, B_exp);
                expect("cmac K2", (long) kl, 0, k2, B_exp, 16);
        }
        grp_end();

        grp_begin("vec-poly1305(RFC8439)");
        for (i = 0; i < NV(poly_vecs); i++) {
                const size_t ml = unhex(poly_vecs[i].msg, B_in);

                unhex(poly_vecs[i].key, B_key);
                unhex(poly_vecs[i].tag, B_exp);
                ref_poly1305(B_key, B_in, ml, tag);
                expect("poly1305", (long) i, (long) ml, tag, B_exp, 16);
        }
        grp_end();
}

/* ------------------------------------------------------------------------- */
/* frozen library KAT copies: CBCS, CTR bit length, CMAC bit length, GHASH   */
/* ------------------------------------------------------------------------- */
static uint8_t L_in[12000], L_exp[12000], L_out[12000];

static void
test_frozen(void)
{
        size_t i;
        uint8_t key[32], iv[16], niv[16], tag[16];

        grp_begin("frozen-cbcs-1-9(aes_cbcs_test.json.c)");
        for (i = 0; i < NV(cbcs_vecs); i++) {
                const struct cvec *v = &cbcs_vecs[i];
                const size_t len = unhex(v->pt, L_in);
                size_t lastoff;

                unhex(v->key, key);
                unhex(v->iv, iv);
                unhex(v->ct, L_exp);
                /* the KAT's own rule for the last processed block */
                lastoff = (((len + 9 * 16) / 160) - 1) * 160;
                memset(L_out, 0xA5, len + 16);
                ref_aes_cbcs_1_9(1, key, iv, L_in, L_out, len, niv);
                expect(v->name, 1, (long) len, L_out, L_exp, len);
                expect("next_iv enc", 1, (long) len, niv, L_exp + lastoff, 16);
                memset(L_out, 0xA5, len + 16);
                ref_aes_cbcs_1_9(0, key, iv, L_exp, L_out, len, niv);
                expect(v->name, 0, (long) len, L_out, L_in, len);
                expect("next_iv dec", 0, (long) len, niv, L_exp + lastoff, 16);
                memcpy(L_out, L_in, len);
                ref_aes_cbcs_1_9(1, key, iv, L_out, L_out, len, niv);
                expect("in place enc", 1, (long) len, L_out, L_exp, len);
                ref_aes_cbcs_1_9(0, key, iv, L_out, L_out, len, niv);
                expect("in place dec", 0, (long) len, L_out, L_in, len);
        }
        /* structure: block b is CBC-chained to processed block b-10, others clear */
        {
                size_t nb, b;

                fill(key, 16, 1);
                fill(iv, 16, 2);
                for (nb = 1; nb <= 35; nb++) {
                        uint8_t chain[16];

                        fill(L_in, nb * 16, (unsigned) nb);
                        ref_aes_cbcs_1_9(1, key, iv, L_in, L_out, nb * 16, niv);
                        memcpy(chain, iv, 16);
                        for (b = 0; b < nb; b++) {
                                if (b % 10 == 0) {
                                        ref_aes_cbc(1, key, 16, chain, L_in + 16 * b, L_exp + 16 * b,
                                                    16);
                                        memcpy(chain, L_exp + 16 * b, 16);
                                } else {
                                        memcpy(L_exp + 16 * b, L_in + 16 * b, 16);
                                }
                        }
                        expect("pattern", (long) nb, 0, L_out, L_exp, nb * 16);
                        expect("pattern next_iv", (long) nb, 0, niv, chain, 16);
                }
        }
        grp_end();

        grp_begin("frozen-ctr-bitlen(ctr_test.json.c)");
        for (i = 0; i < NV(ctrbit_vecs); i++) {
                const struct cvec *v = &ctrbit_vecs[i];
                const size_t nby = unhex(v->pt, L_in);
                const size_t kl = unhex(v->key, key);

                unhex(v->iv, iv);
                unhex(v->ct, L_exp);
                if (nby != (v->msgbits + 7) / 8) {
                        printf("  bad literal %s\n", v->name);
                        grp_fail++;
                }
                /* as the library KAT: destination pre-filled with 0xff */
                memset(L_out, 0xff, nby + 16);
                ref_aes_ctr_bits(key, (int) kl, iv, 16, L_in, L_out, v->msgbits);
                expect(v->name, 1, (long) v->msgbits, L_out, L_exp, nby);
                expect_u32("no write past end", (long) v->msgbits, L_out[nby], 0xff);
                memset(L_out, 0xff, nby + 16);
                ref_aes_ctr_bits(key, (int) kl, iv, 16, L_exp, L_out, v->msgbits);
                expect(v->name, 0, (long) v->msgbits, L_out, L_in, nby);
                /* trailing bits follow the destination: with a zeroed dst they are 0 */
                if (v->msgbits % 8) {
                        const unsigned r = (unsigned) (v->msgbits % 8);
                        const uint8_t top = (uint8_t) (0xff << (8 - r));

                        memset(L_out, 0x00, nby + 16);
                        ref_aes_ctr_bits(key, (int) kl, iv, 16, L_in, L_out, v->msgbits);
                        expect("body, dst=0", 0, 0, L_out, L_exp, nby - 1);
                        expect_u32("last byte, dst=0", (long) v->msgbits, L_out[nby - 1],
                                   (uint32_t) (L_exp[nby - 1] & top));
                        /* in place: trailing bits of the input pass through */
                        memcpy(L_out, L_in, nby);
                        L_out[nby - 1] = (uint8_t) ((L_in[nby - 1] & top) | (0x55 & ~top));
                        ref_aes_ctr_bits(key, (int) kl, iv, 16, L_out, L_out, v->msgbits);
                        expect_u32("last byte, in place", (long) v->msgbits, L_out[nby - 1],
                                   (uint32_t) ((L_exp[nby - 1] & top) | (0x55 & ~top)));
                }
        }
        /* whole-byte bit lengths equal plain CTR */
        fill(key, 32, 7);
        fill(iv, 16, 8);
        fill(L_in, 100, 9);
        for (i = 1; i <= 100; i++) {
                ref_aes_ctr(key, 16, iv, 16, L_in, L_exp, i);
                memset(L_out, 0, 128);
                ref_aes_ctr_bits(key, 16, iv, 16, L_in, L_out, 8 * i);
                expect("bits==bytes", (long) i, 0, L_out, L_exp, i);
        }
        grp_end();

        test_cvecs("frozen-docsis-des(des_test.json.c)", M_DOCSIS_DES, docsis_des_vecs,
                   NV(docsis_des_vecs));

        grp_begin("frozen-cmac-bitlen(cmac_test.json.c 3GPP)");
        for (i = 0; i < NV(cmac3gpp_vecs); i++) {
                const struct mvec *v = &cmac3gpp_vecs[i];
                const size_t nby = unhex(v->msg, L_in);
                const size_t tl = unhex(v->tag, L_exp);

                unhex(v->key, key);
                ref_aes_cmac(key, 16, L_in, v->msgbits, tag);
                expect(v->name, (long) v->msgbits, 0, tag, L_exp, tl);
                /* bits after the message must not matter */
                if (v->msgbits % 8) {
                        L_in[nby - 1] ^= (uint8_t) (0xff >> (v->msgbits % 8));
                        ref_aes_cmac(key, 16, L_in, v->msgbits, tag);
                        expect("trailing bits ignored", (long) v->msgbits, 0, tag, L_exp, tl);
                }
        }
        grp_end();

        grp_begin("frozen-ghash(ghash_test.json.c)");
        for (i = 0; i < NV(ghash_vecs); i++) {
                const struct mvec *v = &ghash_vecs[i];
                const size_t nby = unhex(v->msg, L_in);
                const size_t tl = unhex(v->tag, L_exp);

                unhex(v->key, key);
                ref_ghash(key, L_in, nby, tag);
                expect(v->name, (long) nby, 0, tag, L_exp, tl);
        }
        grp_end();
}

/* ------------------------------------------------------------------------- */
/* CRC: catalogue check values + frozen copy of the table-driven reference   */
/* functions of /repo/test/kat-app/crc_test.c (reflect, crc32_ref_init_lut,  */
/* crc32_ref_calc_lut, crc32_init_lut, crc32_calc_lut and the 12 parameter   */
/* sets), compared with the bit-by-bit division for lengths 0..300           */
/* ------------------------------------------------------------------------- */
static uint32_t k_lut[256];

static uint64_t
k_reflect(uint64_t v, const uint32_t n)
{
        uint32_t i;
        uint64_t r = 0;

        for (i = 0; i < n; i++) {
                if (i != 0) {
                        r <<= 1;
                        v >>= 1;
                }
                r |= (v & 1);
        }
        return r;
}

static void
k_crc32_ref_init_lut(const uint32_t poly, uint32_t *rlut)
{
        uint_fast32_t i, j;

        for (i = 0; i < 256; i++) {
                uint_fast32_t crc = (uint32_t) k_reflect(i, 32);

                for (j = 0; j < 8; j++) {
                        if (crc & 0x80000000UL)
                                crc = (crc << 1) ^ poly;
                        else
                                crc <<= 1;
                }
                rlut[i] = (uint32_t) k_reflect(crc, 32);
        }
}

static uint32_t
k_crc32_ref_calc_lut(const uint8_t *data, uint64_t data_len, uint32_t crc, const uint32_t *rlut)
{
        while (data_len--)
                crc = rlut[(crc ^ *data++) & 0xffL] ^ (crc >> 8);
        return crc;
}

static void
k_crc32_init_lut(const uint32_t poly, uint32_t *lut)
{
        uint_fast32_t i, j;

        for (i = 0; i < 256; i++) {
                uint_fast32_t crc = (i << 24);

                for (j = 0; j < 8; j++)
                        if (crc & 0x80000000UL)
                                crc = (crc << 1) ^ poly;
                        else
                                crc <<= 1;
                lut[i] = (uint32_t) crc;
        }
}

static uint32_t
k_crc32_calc_lut(const uint8_t *data, uint64_t data_len, uint32_t crc, const uint32_t *lut)
{
        while (data_len--)
                crc = lut[(crc >> 24) ^ *data++] ^ (crc << 8);
        return crc;
}

/* the library KAT's reference for each CRC, parameters exactly as in crc_test.c */
static uint32_t
kat_crc(int which, const uint8_t *p, uint64_t len)
{
        switch (which) {
        case REF_CRC32_ETHERNET_FCS:
                k_crc32_ref_init_lut(0x04c11db7UL, k_lut);
                return ~k_crc32_ref_calc_lut(p, len, 0xffffffffUL, k_lut);
        case REF_CRC16_X25:
                k_crc32_ref_init_lut(0x10210000UL, k_lut);
                return (~k_crc32_ref_calc_lut(p, len, 0xffffUL, k_lut)) & 0xffff;
        case REF_CRC32_SCTP:
                k_crc32_init_lut(0x1edc6f41, k_lut);
                return k_crc32_calc_lut(p, len, 0x0UL, k_lut);
        case REF_CRC24_LTE_A:
                k_crc32_init_lut(0x864CFBUL << 8, k_lut);
                return k_crc32_calc_lut(p, len, 0x0UL, k_lut) >> 8;
        case REF_CRC24_LTE_B:
                k_crc32_init_lut(0x800063UL << 8, k_lut);
                return k_crc32_calc_lut(p, len, 0x0UL, k_lut) >> 8;
        case REF_CRC16_FP_DATA:
                k_crc32_init_lut(0x8005UL << 16, k_lut);
                return k_crc32_calc_lut(p, len, 0x0UL, k_lut) >> 16;
        case REF_CRC11_FP_HEADER:
                k_crc32_init_lut(0x307UL << 21, k_lut);
                return k_crc32_calc_lut(p, len, 0x0UL, k_lut) >> 21;
        case REF_CRC7_FP_HEADER:
                k_crc32_init_lut(0x45UL << 25, k_lut);
                return k_crc32_calc_lut(p, len, 0x0UL, k_lut) >> 25;
        case REF_CRC10_IUUP_DATA:
                k_crc32_init_lut(0x233UL << 22, k_lut);
                return k_crc32_calc_lut(p, len, 0x0UL, k_lut) >> 22;
        case REF_CRC6_IUUP_HEADER:
                k_crc32_init_lut(0x2fUL << 26, k_lut);
                return k_crc32_calc_lut(p, len, 0x0UL, k_lut) >> 26;
        case REF_CRC32_WIMAX_OFDMA_DATA:
                k_crc32_init_lut(0x4c11db7, k_lut);
                return ~k_crc32_calc_lut(p, len, 0xffffffffUL, k_lut);
        case REF_CRC8_WIMAX_OFDMA_HCS:
                k_crc32_init_lut(0x07 << 24, k_lut);
                return k_crc32_calc_lut(p, len, 0x0UL, k_lut) >> 24;
        }
        return 0;
}

static void
test_crc(void)
{
        size_t i, n;
        int w;

        grp_begin("vec-crc(reveng-catalogue-check)");
        for (i = 0; i < NV(crc_checks); i++)
                expect_u32(crc_checks[i].name, crc_checks[i].which,
                           ref_crc(crc_checks[i].which, (const uint8_t *) "123456789", 9),
                           crc_checks[i].check);
        grp_end();

        grp_begin("frozen-crc(crc_test.c reference functions, len 0..300)");
        for (w = 0; w < REF_CRC_NUM; w++)
                for (n = 0; n <= 300; n++) {
                        fill(B_in, n, (unsigned) (n * 13 + (size_t) w));
                        expect_u32("crc", (long) (w * 1000 + (int) n), ref_crc(w, B_in, n),
                                   kat_crc(w, B_in, n));
                }
        grp_end();
}

/* ------------------------------------------------------------------------- */
/* 2. cross-checks against OpenSSL's own modes, lengths 0..200               */
/* ------------------------------------------------------------------------- */
#define XLEN 200

static void
evp_cipher(const EVP_CIPHER *c, int enc, const uint8_t *key, const uint8_t *iv, const uint8_t *in,
           size_t len, uint8_t *out)
{
        EVP_CIPHER_CTX *x = EVP_CIPHER_CTX_new();
        int ol = 0, fl = 0;

        EVP_CipherInit_ex(x, c, NULL, key, iv, enc);
        EVP_CIPHER_CTX_set_padding(x, 0);
        if (len)
                EVP_CipherUpdate(x, out, &ol, in, (int) len);
        EVP_CipherFinal_ex(x, out + ol, &fl);
        EVP_CIPHER_CTX_free(x);
}

static void
evp_mac(const char *name, const char *cipher, const uint8_t *key, size_t klen, const uint8_t *msg,
        size_t len, uint8_t *tag)
{
        EVP_MAC *mac = EVP_MAC_fetch(NULL, name, NULL);
        EVP_MAC_CTX *mc = EVP_MAC_CTX_new(mac);
        OSSL_PARAM p[2];
        size_t ml = 0;
        int np = 0;

        if (cipher != NULL)
                p[np++] = OSSL_PARAM_construct_utf8_string(OSSL_MAC_PARAM_CIPHER, (char *) cipher, 0);
        p[np] = OSSL_PARAM_construct_end();
        EVP_MAC_init(mc, key, klen, p);
        if (len)
                EVP_MAC_update(mc, msg, len);
        EVP_MAC_final(mc, tag, &ml, 16);
        EVP_MAC_CTX_free(mc);
        EVP_MAC_free(mac);
}


/* Single DES lives in OpenSSL 3's "legacy" provider. main() tries to load
 * it; if EVP_des_cbc()/EVP_des_cfb64() are still unavailable the low-level
 * DES_ncbc_encrypt()/DES_cfb64_encrypt() (OpenSSL's own CBC/CFB code) are
 * used instead. */
static int des_via_evp;

static void
ossl_des(int cfb, int enc, const uint8_t *key, const uint8_t *iv, const uint8_t *in, size_t len,
         uint8_t *out)
{
        if (des_via_evp) {
                evp_cipher(cfb ? EVP_des_cfb64() : EVP_des_cbc(), enc, key, iv, in, len, out);
        } else {
                DES_key_schedule ks;
                DES_cblock k, ivc;
                int num = 0;

                memcpy(k, key, 8);
                memcpy(ivc, iv, 8);
                DES_set_key_unchecked(&k, &ks);
                if (cfb)
                        DES_cfb64_encrypt(in, out, (long) len, &ks, &ivc, &num,
                                          enc ? DES_ENCRYPT : DES_DECRYPT);
                else
                        DES_ncbc_encrypt(in, out, (long) len, &ks, &ivc,
                                         enc ? DES_ENCRYPT : DES_DECRYPT);
        }
}

/* one (mode,key length) against an EVP cipher, both directions, out of place
 * and in place, every valid length 0..XLEN */
static void
xcheck_mode(const char *gname, int mode, const EVP_CIPHER *c, size_t klen, size_t ivlen,
            size_t step)
{
        size_t len;
        int enc;

        grp_begin(gname);
        for (len = 0; len <= XLEN; len += step) {
                fill(B_key, klen, (unsigned) (len + 11));
                fill(B_iv, 16, (unsigned) (len + 12));
                if (mode == M_CTR || mode == M_SM4_CTR) {
                        /* OpenSSL increments all 128 bits; stay away from a
                         * 32-bit wrap (the wrap itself is tested separately) */
                        B_iv[12] &= 0x7f;
                }
                fill(B_in, len, (unsigned) (len + 13));
                for (enc = 1; enc >= 0; enc--) {
                        memset(B_exp, 0, len + 16);
                        if (mode == M_DES)
                                ossl_des(0, enc, B_key, B_iv, B_in, len, B_exp);
                        else
                                evp_cipher(c, enc, B_key, B_iv, B_in, len, B_exp);
                        memset(B_out, 0xA5, len + 16);
                        run_mode(mode, enc, B_key, klen, B_iv, ivlen, B_in, B_out, len);
                        expect("out of place", (long) len, enc, B_out, B_exp, len);
                        expect_u32("no overrun", (long) len, B_out[len], 0xA5);
                        memcpy(B_tmp, B_in, len);
                        run_mode(mode, enc, B_key, klen, B_iv, ivlen, B_tmp, B_tmp, len);
                        expect("in place", (long) len, enc, B_tmp, B_exp, len);
                }
        }
        grp_end();
}

static void
test_openssl_modes(void)
{
        xcheck_mode("x-openssl-aes128-ecb", M_ECB, EVP_aes_128_ecb(), 16, 0, 16);
        xcheck_mode("x-openssl-aes192-ecb", M_ECB, EVP_aes_192_ecb(), 24, 0, 16);
        xcheck_mode("x-openssl-aes256-ecb", M_ECB, EVP_aes_256_ecb(), 32, 0, 16);
        xcheck_mode("x-openssl-aes128-cbc", M_CBC, EVP_aes_128_cbc(), 16, 16, 16);
        xcheck_mode("x-openssl-aes192-cbc", M_CBC, EVP_aes_192_cbc(), 24, 16, 16);
        xcheck_mode("x-openssl-aes256-cbc", M_CBC, EVP_aes_256_cbc(), 32, 16, 16);
        xcheck_mode("x-openssl-aes128-ctr", M_CTR, EVP_aes_128_ctr(), 16, 16, 1);
        xcheck_mode("x-openssl-aes192-ctr", M_CTR, EVP_aes_192_ctr(), 24, 16, 1);
        xcheck_mode("x-openssl-aes256-ctr", M_CTR, EVP_aes_256_ctr(), 32, 16, 1);
        xcheck_mode("x-openssl-aes128-cfb128", M_CFB, EVP_aes_128_cfb128(), 16, 16, 1);
        xcheck_mode("x-openssl-aes192-cfb128", M_CFB, EVP_aes_192_cfb128(), 24, 16, 1);
        xcheck_mode("x-openssl-aes256-cfb128", M_CFB, EVP_aes_256_cfb128(), 32, 16, 1);
        xcheck_mode("x-openssl-des-cbc", M_DES, EVP_des_cbc(), 8, 8, 8);
        xcheck_mode("x-openssl-des-ede3-cbc", M_3DES, EVP_des_ede3_cbc(), 24, 8, 8);
        xcheck_mode("x-openssl-sm4-cbc", M_SM4_CBC, EVP_sm4_cbc(), 16, 16, 16);
        xcheck_mode("x-openssl-sm4-ctr", M_SM4_CTR, EVP_sm4_ctr(), 16, 16, 1);

        /* SM4-ECB, 12-byte-IV CTR forms, 32-bit counter wrap, ChaCha20 */
        {
                size_t len;
                uint8_t iv16[16];

                grp_begin("x-openssl-sm4-ecb");
                for (len = 0; len <= XLEN; len += 16) {
                        int enc;

                        fill(B_key, 16, (unsigned) len + 1);
                        fill(B_in, len, (unsigned) len + 2);
                        for (enc = 1; enc >= 0; enc--) {
                                evp_cipher(EVP_sm4_ecb(), enc, B_key, NULL, B_in, len, B_exp);
                                ref_sm4_ecb(enc, B_key, B_in, B_out, len);
                                expect("sm4-ecb", (long) len, enc, B_out, B_exp, len);
                                memcpy(B_tmp, B_in, len);
                                ref_sm4_ecb(enc, B_key, B_tmp, B_tmp, len);
                                expect("sm4-ecb in place", (long) len, enc, B_tmp, B_exp, len);
                        }
                }
                grp_end();

                grp_begin("x-openssl-ctr-iv12(aes128/192/256,sm4)");
                for (len = 0; len <= XLEN; len++) {
                        int ki;

                        fill(B_key, 32, (unsigned) len + 3);
                        fill(B_iv, 12, (unsigned) len + 4);
                        fill(B_in, len, (unsigned) len + 5);
                        memcpy(iv16, B_iv, 12);
                        iv16[12] = 0; iv16[13] = 0; iv16[14] = 0; iv16[15] = 1;
                        for (ki = 0; ki < 3; ki++) {
                                const EVP_CIPHER *c = ki == 0   ? EVP_aes_128_ctr()
                                                      : ki == 1 ? EVP_aes_192_ctr()
                                                                : EVP_aes_256_ctr();
                                evp_cipher(c, 1, B_key, iv16, B_in, len, B_exp);
                                ref_aes_ctr(B_key, 16 + 8 * ki, B_iv, 12, B_in, B_out, len);
                                expect("aes-ctr iv12", (long) len, ki, B_out, B_exp, len);
                        }
                        evp_cipher(EVP_sm4_ctr(), 1, B_key, iv16, B_in, len, B_exp);
                        ref_sm4_ctr(B_key, B_iv, 12, B_in, B_out, len);
                        expect("sm4-ctr iv12", (long) len, 0, B_out, B_exp, len);
                }
                grp_end();

                /* counter wrap: block i uses counter (c0 + i) mod 2^32 with
                 * the upper 96 bits fixed; build the expectation from single
                 * ECB block encryptions of explicitly constructed counters */
                grp_begin("def-ctr32-wrap(aes,sm4)");
                {
                        static const uint32_t c0s[] = { 0xfffffffeu, 0xffffffffu, 0xfffffffdu, 0 };
                        size_t ci, b, i;

                        fill(B_key, 32, 77);
                        fill(B_in, 96, 78);
                        for (ci = 0; ci < 4; ci++) {
                                memset(iv16, 0xff, 16); /* carry would hit all-ones upper part */
                                iv16[12] = (uint8_t) (c0s[ci] >> 24);
                                iv16[13] = (uint8_t) (c0s[ci] >> 16);
                                iv16[14] = (uint8_t) (c0s[ci] >> 8);
                                iv16[15] = (uint8_t) c0s[ci];
                                for (b = 0; b < 6; b++) {
                                        uint8_t cb[16], ks[16];
                                        const uint32_t c = c0s[ci] + (uint32_t) b;

                                        memset(cb, 0xff, 12);
                                        cb[12] = (uint8_t) (c >> 24);
                                        cb[13] = (uint8_t) (c >> 16);
                                        cb[14] = (uint8_t) (c >> 8);
                                        cb[15] = (uint8_t) c;
                                        evp_cipher(EVP_aes_256_ecb(), 1, B_key, NULL, cb, 16, ks);
                                        for (i = 0; i < 16; i++)
                                                B_exp[16 * b + i] = B_in[16 * b + i] ^ ks[i];
                                        evp_cipher(EVP_sm4_ecb(), 1, B_key, NULL, cb, 16, ks);
                                        for (i = 0; i < 16; i++)
                                                B_tmp[16 * b + i] = B_in[16 * b + i] ^ ks[i];
                                }
                                ref_aes_ctr(B_key, 32, iv16, 16, B_in, B_out, 91);
                                expect("aes wrap", (long) ci, 0, B_out, B_exp, 91);
                                ref_sm4_ctr(B_key, iv16, 16, B_in, B_out, 91);
                                expect("sm4 wrap", (long) ci, 0, B_out, B_tmp, 91);
                        }
                }
                grp_end();

                /* bit-length CTR (128-EEA2): the LOW 64 BITS count modulo 2^64,
                 * the upper 64 bits never change (TS 33.401 B.1.3) */
                grp_begin("def-ctr64-wrap(aes-ctr-bitlen, EEA2 counter)");
                {
                        static const uint64_t c0s[] = { 0x00000000fffffffeull, 0xfffffffffffffffeull,
                                                        0x12345678ffffffffull, 5 };
                        size_t ci, b, i;

                        fill(B_key, 32, 79);
                        fill(B_in, 96, 80);
                        for (ci = 0; ci < 4; ci++) {
                                memset(iv16, 0xff, 8);
                                for (i = 0; i < 8; i++)
                                        iv16[8 + i] = (uint8_t) (c0s[ci] >> (56 - 8 * i));
                                for (b = 0; b < 6; b++) {
                                        uint8_t cb[16], ks[16];
                                        const uint64_t c = c0s[ci] + (uint64_t) b;

                                        memset(cb, 0xff, 8);
                                        for (i = 0; i < 8; i++)
                                                cb[8 + i] = (uint8_t) (c >> (56 - 8 * i));
                                        evp_cipher(EVP_aes_128_ecb(), 1, B_key, NULL, cb, 16, ks);
                                        for (i = 0; i < 16; i++)
                                                B_exp[16 * b + i] = B_in[16 * b + i] ^ ks[i];
                                }
                                memset(B_out, 0, 128);
                                ref_aes_ctr_bits(B_key, 16, iv16, 16, B_in, B_out, 91 * 8);
                                expect("aes bits ctr64", (long) ci, 0, B_out, B_exp, 91);
                                /* 729 bits = 91 bytes + 1 bit: byte 91 gets only its top bit */
                                memset(B_out, 0, 128);
                                ref_aes_ctr_bits(B_key, 16, iv16, 16, B_in, B_out, 91 * 8 + 1);
                                expect("aes bits ctr64 +1 bit", (long) ci, 0, B_out, B_exp, 91);
                                expect_u32("partial byte", (long) ci, B_out[91],
                                           (uint32_t) (B_exp[91] & 0x80));
                        }
                }
                grp_end();

                grp_begin("x-openssl-chacha20");
                for (len = 0; len <= XLEN; len++) {
                        uint32_t ctr = (len % 3 == 0) ? 0 : (len % 3 == 1) ? 1 : 0xfffffffeu;

                        if (len > 64 && ctr > 2)
                                ctr = 7; /* OpenSSL carries into the nonce word on wrap */
                        fill(B_key, 32, (unsigned) len + 6);
                        fill(B_iv, 12, (unsigned) len + 7);
                        fill(B_in, len, (unsigned) len + 8);
                        iv16[0] = (uint8_t) ctr;
                        iv16[1] = (uint8_t) (ctr >> 8);
                        iv16[2] = (uint8_t) (ctr >> 16);
                        iv16[3] = (uint8_t) (ctr >> 24);
                        memcpy(iv16 + 4, B_iv, 12);
                        evp_cipher(EVP_chacha20(), 1, B_key, iv16, B_in, len, B_exp);
                        ref_chacha20(B_key, B_iv, ctr, B_in, B_out, len);
                        expect("chacha20", (long) len, (long) ctr, B_out, B_exp, len);
                        memcpy(B_tmp, B_in, len);
                        ref_chacha20(B_key, B_iv, ctr, B_tmp, B_tmp, len);
                        expect("chacha20 in place", (long) len, (long) ctr, B_tmp, B_exp, len);
                }
                grp_end();
        }
}

/* DOCSIS / CBCS / CFB by definition from OpenSSL pieces */
static void
test_docsis_definition(void)
{
        size_t len;
        int ki, enc;

        grp_begin("def-docsis-aes(cbc+cfb via openssl, len 0..200)");
        for (ki = 0; ki < 3; ki++)
                for (len = 0; len <= XLEN; len++) {
                        const EVP_CIPHER *cbc = ki == 0   ? EVP_aes_128_cbc()
                                                : ki == 1 ? EVP_aes_192_cbc()
                                                          : EVP_aes_256_cbc();
                        const EVP_CIPHER *cfb = ki == 0   ? EVP_aes_128_cfb128()
                                                : ki == 1 ? EVP_aes_192_cfb128()
                                                          : EVP_aes_256_cfb128();
                        const size_t full = len & ~(size_t) 15, rem = len & 15;

                        fill(B_key, 32, (unsigned) len + 21);
                        fill(B_iv, 16, (unsigned) len + 22);
                        fill(B_in, len, (unsigned) len + 23);
                        /* expected ciphertext */
                        evp_cipher(cbc, 1, B_key, B_iv, B_in, full, B_exp);
                        if (rem)
                                evp_cipher(cfb, 1, B_key, full ? B_exp + full - 16 : B_iv,
                                           B_in + full, rem, B_exp + full);
                        for (enc = 1; enc >= 0; enc--) {
                                const uint8_t *src = enc ? B_in : B_exp;
                                const uint8_t *want = enc ? B_exp : B_in;

                                memset(B_out, 0xA5, len + 16);
                                ref_docsis_aes(enc, B_key, 16 + 8 * ki, B_iv, src, B_out, len);
                                expect("docsis-aes", (long) len, enc, B_out, want, len);
                                expect_u32("no overrun", (long) len, B_out[len], 0xA5);
                                memcpy(B_tmp, src, len);
                                ref_docsis_aes(enc, B_key, 16 + 8 * ki, B_iv, B_tmp, B_tmp, len);
                                expect("docsis-aes in place", (long) len, enc, B_tmp, want, len);
                        }
                }
        grp_end();

        grp_begin("def-docsis-des(cbc+cfb64 via openssl, len 0..200)");
        for (len = 0; len <= XLEN; len++) {
                const size_t full = len & ~(size_t) 7, rem = len & 7;

                fill(B_key, 8, (unsigned) len + 31);
                fill(B_iv, 8, (unsigned) len + 32);
                fill(B_in, len, (unsigned) len + 33);
                ossl_des(0, 1, B_key, B_iv, B_in, full, B_exp);
                if (rem)
                        ossl_des(1, 1, B_key, full ? B_exp + full - 8 : B_iv, B_in + full, rem,
                                 B_exp + full);
                for (enc = 1; enc >= 0; enc--) {
                        const uint8_t *src = enc ? B_in : B_exp;
                        const uint8_t *want = enc ? B_exp : B_in;

                        memset(B_out, 0xA5, len + 16);
                        ref_docsis_des(enc, B_key, B_iv, src, B_out, len);
                        expect("docsis-des", (long) len, enc, B_out, want, len);
                        expect_u32("no overrun", (long) len, B_out[len], 0xA5);
                        memcpy(B_tmp, src, len);
                        ref_docsis_des(enc, B_key, B_iv, B_tmp, B_tmp, len);
                        expect("docsis-des in place", (long) len, enc, B_tmp, want, len);
                }
        }
        grp_end();
}

static const EVP_MD *
md_of(int alg)
{
        switch (alg) {
        case REF_SHA1: return EVP_sha1();
        case REF_SHA224: return EVP_sha224();
        case REF_SHA256: return EVP_sha256();
        case REF_SHA384: return EVP_sha384();
        case REF_SHA512: return EVP_sha512();
        case REF_MD5: return EVP_md5();
        default: return EVP_sm3();
        }
}

static const char *alg_name[] = { "sha1", "sha224", "sha256", "sha384", "sha512", "md5", "sm3" };

/* full SM3 built on the reference's own compression function */
static void
sm3_from_compress(const uint8_t *msg, size_t len, uint8_t out[32])
{
        uint32_t v[8] = { 0x7380166f, 0x4914b2b9, 0x172442d7, 0xda8a0600,
                          0xa96f30bc, 0x163138aa, 0xe38dee4d, 0xb0fb0e4e };
        uint8_t blk[128];
        size_t o, rem, i;
        uint64_t bits = 8 * (uint64_t) len;

        for (o = 0; o + 64 <= len; o += 64)
                ref__sm3_compress(v, msg + o);
        rem = len - o;
        memset(blk, 0, sizeof(blk));
        memcpy(blk, msg + o, rem);
        blk[rem] = 0x80;
        if (rem + 9 <= 64) {
                for (i = 0; i < 8; i++)
                        blk[56 + i] = (uint8_t) (bits >> (56 - 8 * i));
                ref__sm3_compress(v, blk);
        } else {
                for (i = 0; i < 8; i++)
                        blk[120 + i] = (uint8_t) (bits >> (56 - 8 * i));
                ref__sm3_compress(v, blk);
                ref__sm3_compress(v, blk + 64);
        }
        for (i = 0; i < 8; i++) {
                out[4 * i] = (uint8_t) (v[i] >> 24);
                out[4 * i + 1] = (uint8_t) (v[i] >> 16);
                out[4 * i + 2] = (uint8_t) (v[i] >> 8);
                out[4 * i + 3] = (uint8_t) v[i];
        }
}

static uint32_t
rd_le32(const uint8_t *p)
{
        return (uint32_t) p[0] | ((uint32_t) p[1] << 8) | ((uint32_t) p[2] << 16) |
               ((uint32_t) p[3] << 24);
}

static uint64_t
rd_le64(const uint8_t *p)
{
        return (uint64_t) rd_le32(p) | ((uint64_t) rd_le32(p + 4) << 32);
}

/* continue a hash from a one-block state laid out as ref_hmac_ipad_opad()
 * documents, absorb `msg`, and finish: result = H(block || msg) */
static void
resume_hash(int alg, const uint8_t *state, const uint8_t *msg, size_t len, uint8_t *out)
{
        int i;

        switch (alg) {
        case REF_SHA1: {
                SHA_CTX c;

                SHA1_Init(&c);
                c.h0 = rd_le32(state);
                c.h1 = rd_le32(state + 4);
                c.h2 = rd_le32(state + 8);
                c.h3 = rd_le32(state + 12);
                c.h4 = rd_le32(state + 16);
                c.Nl = 512;
                SHA1_Update(&c, msg, len);
                SHA1_Final(out, &c);
                break;
        }
        case REF_SHA224:
        case REF_SHA256: {
                SHA256_CTX c;

                if (alg == REF_SHA224)
                        SHA224_Init(&c);
                else
                        SHA256_Init(&c);
                for (i = 0; i < 8; i++)
                        c.h[i] = rd_le32(state + 4 * i);
                c.Nl = 512;
                SHA256_Update(&c, msg, len);
                if (alg == REF_SHA224)
                        SHA224_Final(out, &c);
                else
                        SHA256_Final(out, &c);
                break;
        }
        case REF_SHA384:
        case REF_SHA512: {
                SHA512_CTX c;

                if (alg == REF_SHA384)
                        SHA384_Init(&c);
                else
                        SHA512_Init(&c);
                for (i = 0; i < 8; i++)
                        c.h[i] = rd_le64(state + 8 * i);
                c.Nl = 1024;
                SHA512_Update(&c, msg, len);
                if (alg == REF_SHA384)
                        SHA384_Final(out, &c);
                else
                        SHA512_Final(out, &c);
                break;
        }
        case REF_MD5: {
                MD5_CTX c;

                MD5_Init(&c);
                c.A = rd_le32(state);
                c.B = rd_le32(state + 4);
                c.C = rd_le32(state + 8);
                c.D = rd_le32(state + 12);
                c.Nl = 512;
                MD5_Update(&c, msg, len);
                MD5_Final(out, &c);
                break;
        }
        case REF_SM3: {
                /* little-endian state words; finish with the reference's own
                 * compression function (validated against EVP_sm3 below) */
                uint32_t v[8];
                uint8_t blk[128 + 64];
                size_t o, rem, j;
                const uint64_t bits = 8 * (uint64_t) (64 + len);

                for (i = 0; i < 8; i++)
                        v[i] = rd_le32(state + 4 * i);
                for (o = 0; o + 64 <= len; o += 64)
                        ref__sm3_compress(v, msg + o);
                rem = len - o;
                memset(blk, 0, sizeof(blk));
                memcpy(blk, msg + o, rem);
                blk[rem] = 0x80;
                if (rem + 9 <= 64) {
                        for (j = 0; j < 8; j++)
                                blk[56 + j] = (uint8_t) (bits >> (56 - 8 * j));
                        ref__sm3_compress(v, blk);
                } else {
                        for (j = 0; j < 8; j++)
                                blk[120 + j] = (uint8_t) (bits >> (56 - 8 * j));
                        ref__sm3_compress(v, blk);
                        ref__sm3_compress(v, blk + 64);
                }
                for (i = 0; i < 8; i++) {
                        out[4 * i] = (uint8_t) (v[i] >> 24);
                        out[4 * i + 1] = (uint8_t) (v[i] >> 16);
                        out[4 * i + 2] = (uint8_t) (v[i] >> 8);
                        out[4 * i + 3] = (uint8_t) v[i];
                }
                break;
        }
        }
}

static void
test_openssl_macs(void)
{
        size_t len, kl;
        int alg;
        uint8_t tag[64], exp[64], ipad[64], opad[64], inner[64];
        char nm[96];

        for (alg = REF_SHA1; alg <= REF_SM3; alg++) {
                snprintf(nm, sizeof(nm), "x-openssl-hash-%s(len 0..200)", alg_name[alg]);
                grp_begin(nm);
                for (len = 0; len <= XLEN; len++) {
                        unsigned int l = 0;

                        fill(B_in, len, (unsigned) len + 41);
                        EVP_Digest(B_in, len, exp, &l, md_of(alg), NULL);
                        ref_hash(alg, B_in, len, tag);
                        expect("hash", (long) len, 0, tag, exp, (size_t) ref_hash_size(alg));
                }
                grp_end();

                snprintf(nm, sizeof(nm), "x-openssl-hmac-%s(key 0..200 x len 0..200 step 7)",
                         alg_name[alg]);
                grp_begin(nm);
                for (kl = 0; kl <= XLEN; kl++)
                        for (len = (kl % 7); len <= XLEN; len += 7) {
                                unsigned int l = 0;

                                fill(B_key, kl + 1, (unsigned) (kl * 3 + 1));
                                fill(B_in, len, (unsigned) len + 42);
                                HMAC(md_of(alg), B_key, (int) kl, B_in, len, exp, &l);
                                ref_hmac(alg, B_key, kl, B_in, len, tag);
                                expect("hmac", (long) kl, (long) len, tag, exp,
                                       (size_t) ref_hash_size(alg));
                        }
                grp_end();

                /* ipad/opad: resume from the stored one-block states and the
                 * result must be the HMAC */
                snprintf(nm, sizeof(nm), "def-hmac-ipad-opad-%s(key 0..200)", alg_name[alg]);
                grp_begin(nm);
                for (kl = 0; kl <= XLEN; kl++) {
                        const size_t L = (size_t) ref_hash_size(alg);

                        len = (kl * 5) % 150;
                        fill(B_key, kl + 1, (unsigned) (kl * 3 + 2));
                        fill(B_in, len, (unsigned) len + 43);
                        memset(ipad, 0xA5, sizeof(ipad));
                        memset(opad, 0xA5, sizeof(opad));
                        ref_hmac_ipad_opad(alg, B_key, kl, ipad, opad);
                        resume_hash(alg, ipad, B_in, len, inner);
                        resume_hash(alg, opad, inner, L, tag);
                        ref_hmac(alg, B_key, kl, B_in, len, exp);
                        expect("ipad/opad -> hmac", (long) kl, (long) len, tag, exp, L);
                        /* NULL outputs allowed, results independent */
                        memset(B_tmp, 0, 64);
                        ref_hmac_ipad_opad(alg, B_key, kl, B_tmp, NULL);
                        expect("ipad only", (long) kl, 0, B_tmp, ipad, 16);
                        ref_hmac_ipad_opad(alg, B_key, kl, NULL, B_tmp);
                        expect("opad only", (long) kl, 0, B_tmp, opad, 16);
                }
                grp_end();
        }

        grp_begin("def-sm3-compress-vs-EVP_sm3(len 0..200)");
        for (len = 0; len <= XLEN; len++) {
                unsigned int l = 0;

                fill(B_in, len, (unsigned) len + 44);
                EVP_Digest(B_in, len, exp, &l, EVP_sm3(), NULL);
                sm3_from_compress(B_in, len, tag);
                expect("sm3", (long) len, 0, tag, exp, 32);
        }
        grp_end();

        grp_begin("x-openssl-cmac(aes128/192/256, len 0..200)");
        {
                static const char *cn[3] = { "AES-128-CBC", "AES-192-CBC", "AES-256-CBC" };
                int ki;

                for (ki = 0; ki < 3; ki++)
                        for (len = 0; len <= XLEN; len++) {
                                fill(B_key, 32, (unsigned) len + 51);
                                fill(B_in, len, (unsigned) len + 52);
                                evp_mac("CMAC", cn[ki], B_key, (size_t) (16 + 8 * ki), B_in, len,
                                        exp);
                                ref_aes_cmac(B_key, 16 + 8 * ki, B_in, 8 * (uint64_t) len, tag);
                                expect("cmac", (long) len, ki, tag, exp, 16);
                        }
        }
        grp_end();

        /* bit-length CMAC by definition: equals the byte CMAC of nothing
         * simpler, so check the padding rule structurally: a message of b bits
         * has the same tag as ... the SP 800-38B definition computed with
         * explicit blocks through OpenSSL AES-ECB */
        grp_begin("def-cmac-bitlen(explicit SP800-38B, bits 0..520)");
        {
                uint64_t bits;

                for (bits = 0; bits <= 520; bits++) {
                        uint8_t k1[16], k2[16], x[16], m[16], blk[16];
                        const size_t nby = (size_t) ((bits + 7) / 8);
                        uint64_t n = bits == 0 ? 1 : (bits + 127) / 128, b;
                        const int complete = bits != 0 && bits % 128 == 0;
                        size_t i;

                        fill(B_key, 16, (unsigned) bits + 61);
                        fill(B_in, nby + 1, (unsigned) bits + 62);
                        ref_aes_cmac_subkeys(B_key, 16, k1, k2);
                        memset(x, 0, 16);
                        for (b = 0; b < n; b++) {
                                /* block b of the padded bit string, bit by bit */
                                memset(m, 0, 16);
                                for (i = 0; i < 128; i++) {
                                        const uint64_t pos = 128 * b + i;
                                        int bit = 0;

                                        if (pos < bits)
                                                bit = (B_in[pos / 8] >> (7 - pos % 8)) & 1;
                                        else if (pos == bits && !complete)
                                                bit = 1;
                                        m[i / 8] |= (uint8_t) (bit << (7 - i % 8));
                                }
                                if (b == n - 1)
                                        for (i = 0; i < 16; i++)
                                                m[i] ^= complete ? k1[i] : k2[i];
                                for (i = 0; i < 16; i++)
                                        blk[i] = x[i] ^ m[i];
                                evp_cipher(EVP_aes_128_ecb(), 1, B_key, NULL, blk, 16, x);
                        }
                        ref_aes_cmac(B_key, 16, B_in, bits, tag);
                        expect("cmac bits", (long) bits, 0, tag, x, 16);
                }
        }
        grp_end();

        grp_begin("x-openssl-poly1305(len 0..200)");
        for (len = 0; len <= XLEN; len++) {
                fill(B_key, 32, (unsigned) len + 71);
                fill(B_in, len, (unsigned) len + 72);
                if (len % 5 == 0)
                        memset(B_in, 0xff, len); /* stress the carries */
                if (len % 10 == 0)
                        memset(B_key, 0xff, 32);
                evp_mac("POLY1305", NULL, B_key, 32, B_in, len, exp);
                ref_poly1305(B_key, B_in, len, tag);
                expect("poly1305", (long) len, 0, tag, exp, 16);
        }
        grp_end();

        /* GHASH through AES-GCM with AAD only:
         * tag = E_K(J0) xor GHASH_H(pad(A) || [len(A)]_64 || [0]_64), H = E_K(0),
         * J0 = IV || 00000001; GHASH over that explicit string is exactly
         * ref_ghash() of a multiple-of-16 message */
        grp_begin("x-openssl-ghash-via-gcm(len 0..200)");
        for (len = 0; len <= XLEN; len++) {
                EVP_CIPHER_CTX *x = EVP_CIPHER_CTX_new();
                uint8_t h[16], j0[16], ej0[16], zero[16], g[16];
                const size_t pl = (len + 15) & ~(size_t) 15;
                const uint64_t abits = 8 * (uint64_t) len;
                int ol = 0, i;

                fill(B_key, 16, (unsigned) len + 81);
                fill(B_iv, 12, (unsigned) len + 82);
                fill(B_in, len, (unsigned) len + 83);
                EVP_EncryptInit_ex(x, EVP_aes_128_gcm(), NULL, B_key, B_iv);
                if (len)
                        EVP_EncryptUpdate(x, NULL, &ol, B_in, (int) len);
                EVP_EncryptFinal_ex(x, exp, &ol);
                EVP_CIPHER_CTX_ctrl(x, EVP_CTRL_GCM_GET_TAG, 16, exp);
                EVP_CIPHER_CTX_free(x);

                memset(zero, 0, 16);
                ref_aes_block(1, B_key, 16, zero, h);
                memcpy(j0, B_iv, 12);
                j0[12] = 0; j0[13] = 0; j0[14] = 0; j0[15] = 1;
                ref_aes_block(1, B_key, 16, j0, ej0);
                memset(B_tmp, 0, pl + 16);
                memcpy(B_tmp, B_in, len);
                for (i = 0; i < 8; i++)
                        B_tmp[pl + i] = (uint8_t) (abits >> (56 - 8 * i));
                ref_ghash(h, B_tmp, pl + 16, g);
                for (i = 0; i < 16; i++)
                        tag[i] = g[i] ^ ej0[i];
                expect("gcm tag", (long) len, 0, tag, exp, 16);
                /* zero padding of a partial last block is implicit */
                ref_ghash(h, B_in, len, g);
                ref_ghash(h, B_tmp, pl, tag);
                expect("implicit zero pad", (long) len, 0, g, tag, 16);
        }
        grp_end();
}

int
main(void)
{
        OSSL_PROVIDER_load(NULL, "default");
        OSSL_PROVIDER_load(NULL, "legacy");
        {
                EVP_CIPHER *c = EVP_CIPHER_fetch(NULL, "DES-CBC", NULL);

                des_via_evp = (c != NULL);
                EVP_CIPHER_free(c);
                printf("note single-DES cross-check uses %s\n",
                       des_via_evp ? "EVP_des_cbc/EVP_des_cfb64 (legacy provider)"
                                   : "DES_ncbc_encrypt/DES_cfb64_encrypt (legacy provider absent)");
        }
        test_aes_block_and_sm4();
        test_cvecs("vec-aes-ecb(SP800-38A)", M_ECB, sp_ecb, NV(sp_ecb));
        test_cvecs("vec-aes-cbc(SP800-38A)", M_CBC, sp_cbc, NV(sp_cbc));
        test_cvecs("vec-aes-cfb128(SP800-38A)", M_CFB, sp_cfb, NV(sp_cfb));
        test_cvecs("vec-aes-ctr(SP800-38A)", M_CTR, sp_ctr, NV(sp_ctr));
        test_cvecs("vec-aes-ctr-iv12(RFC3686)", M_CTR, rfc3686, NV(rfc3686));
        test_cvecs("vec-des-cbc(FIPS81,SECv3.1)", M_DES, des_vecs, NV(des_vecs));
        test_cvecs("vec-3des-cbc(SP800-67,des3_test_json)", M_3DES, des3_vecs, NV(des3_vecs));
        test_cvecs("frozen-docsis-aes(aes_test.c)", M_DOCSIS_AES, docsis_aes_vecs,
                   NV(docsis_aes_vecs));
        test_cvecs("vec-sm4-cbc(draft-ribose-cfrg-sm4)", M_SM4_CBC, sm4_cbc_vecs, NV(sm4_cbc_vecs));
        test_cvecs("vec-sm4-ctr(draft-ribose-cfrg-sm4)", M_SM4_CTR, sm4_ctr_vecs, NV(sm4_ctr_vecs));
        test_chacha_vectors();
        test_hash_hmac_vectors();
        test_mac_vectors();
        test_frozen();
        test_crc();
        test_openssl_modes();
        test_docsis_definition();
        test_openssl_macs();
        if (total_fail) {
                printf("SELFTEST FAILED: %d mismatches\n", total_fail);
                return 1;
        }
        printf("SELFTEST PASSED\n");
        return 0;
}
