/*
 * xcheck_3gpp.c - cross-check of ref_3gpp.c against intel-ipsec-mb through the job API.
 *
 * Not part of the reference: a sweep driver. Needs a static build of the library made OUTSIDE
 * the source tree, e.g.
 *
 *   cmake -G Ninja -S /repo -B /tmp/ref3gpp_build -DBUILD_SHARED_LIBS=OFF \
 *         -DBUILD_LIBRARY_ONLY=ON -DCMAKE_BUILD_TYPE=RelWithDebInfo
 *   cmake --build /tmp/ref3gpp_build -j6
 *   gcc -O2 -I/repo/lib -o xcheck_3gpp xcheck_3gpp.c ref_3gpp.c \
 *         /tmp/ref3gpp_build/lib/libIPSec_MB.a
 *
 * For every architecture variant the library offers on this CPU and every algorithm, jobs with
 * random keys / IVs / data are submitted in mixed-length batches (so the multi-buffer lanes
 * carry different lengths), flushed, and compared with the reference:
 *   - ciphers: byte lengths 1..300 (bit-length ciphers additionally bit lengths 1..520),
 *   - MACs: bit lengths 1..520 plus a few long ones (KASUMI f9: byte lengths 9..300),
 *   - 3 key/IV pairs per length, destination guard bytes checked.
 * Each (variant, algorithm) runs in a forked child so that a crash is reported, not fatal.
 * Exit status 0 = no disagreement.
 */
#include <stdio.h>
#include <stdint.h>
#include <stdlib.h>
#include <string.h>
#include <unistd.h>
#include <sys/wait.h>

#include <intel-ipsec-mb.h>

#include "ref_3gpp.h"

/* ---------------------------------------------------------------------------------------- */
static uint64_t rng = 0x9E3779B97F4A7C15ULL;

static uint64_t
rnd64(void)
{
	rng ^= rng >> 12;
	rng ^= rng << 25;
	rng ^= rng >> 27;
	return rng * 0x2545F4914F6CDD1DULL;
}

static void
rnd_fill(uint8_t *p, size_t n)
{
	size_t i;

	for (i = 0; i < n; i++)
		p[i] = (uint8_t) (rnd64() >> 32);
}

/* ---------------------------------------------------------------------------------------- */
enum alg {
	A_ZUC128_EEA3,
	A_ZUC256_EEA3_IV25,
	A_ZUC256_EEA3_IV23,
	A_ZUC128_EIA3,
	A_ZUC256_EIA3_T4_IV25,
	A_ZUC256_EIA3_T8_IV25,
	A_ZUC256_EIA3_T16_IV25,
	A_ZUC256_EIA3_T4_IV23,
	A_ZUC256_EIA3_T8_IV23,
	A_ZUC256_EIA3_T16_IV23,
	A_SNOW3G_UEA2,
	A_SNOW3G_UIA2,
	A_KASUMI_F8,
	A_KASUMI_F9,
	A_SNOWV,
	A_SNOWV_AEAD_ENC,
	A_SNOWV_AEAD_DEC,
	A_NUM
};

static const char *alg_name[A_NUM] = {
	"ZUC128-EEA3",          "ZUC256-EEA3/iv25",     "ZUC256-EEA3/iv23",      "ZUC128-EIA3",
	"ZUC256-EIA3/t4/iv25",  "ZUC256-EIA3/t8/iv25",  "ZUC256-EIA3/t16/iv25",  "ZUC256-EIA3/t4/iv23",
	"ZUC256-EIA3/t8/iv23",  "ZUC256-EIA3/t16/iv23", "SNOW3G-UEA2-BITLEN",    "SNOW3G-UIA2-BITLEN",
	"KASUMI-UEA1-BITLEN",   "KASUMI-UIA1",          "SNOW-V",                "SNOW-V-AEAD-enc",
	"SNOW-V-AEAD-dec"
};

static int
is_mac(enum alg a)
{
	return (a >= A_ZUC128_EIA3 && a <= A_ZUC256_EIA3_T16_IV23) || a == A_SNOW3G_UIA2 || a == A_KASUMI_F9;
}

static int
is_bit_cipher(enum alg a)
{
	return a == A_SNOW3G_UEA2 || a == A_KASUMI_F8;
}

#define GUARD    32
#define MAXBYTES 2200
#define BATCH    23 /* jobs in flight before the flush; odd on purpose */
#define NKEYS    3

struct tcase {
	uint8_t key[32];
	uint8_t iv[32];
	uint8_t aad[64];
	size_t aadlen;
	uint8_t src[MAXBYTES + GUARD];
	uint8_t dst[GUARD + MAXBYTES + GUARD];
	uint8_t tag[16 + GUARD];
	uint64_t bits;  /* message length in bits */
	size_t nbytes; /* ceil(bits / 8) */
	void *sched;    /* SNOW3G / KASUMI key schedule */
	int done;
	int status;
};

struct result {
	unsigned long cases, mismatches, guard_hits, not_completed;
	/* bit-length ciphers only: cases with a partial last byte and, per hypothesis, how many
	 * of them are consistent with it */
	unsigned long tail_cases, tail_whole_byte, tail_ks_only, tail_preserved, tail_zero;
};

static int verbose_left = 6; /* mismatches printed in detail per child */

static void
hex(const char *l, const uint8_t *p, size_t n)
{
	size_t i;

	printf("      %s ", l);
	for (i = 0; i < n; i++)
		printf("%02x", p[i]);
	printf("\n");
}

static void
fill_job(IMB_MGR *mgr, IMB_JOB *job, enum alg a, struct tcase *c, int idx)
{
	(void) mgr;
	job->user_data = c;
	job->src = c->src;
	job->dst = c->dst + GUARD;
	job->cipher_direction = (idx & 1) ? IMB_DIR_DECRYPT : IMB_DIR_ENCRYPT;
	job->chain_order = IMB_ORDER_CIPHER_HASH;
	job->cipher_mode = IMB_CIPHER_NULL;
	job->hash_alg = IMB_AUTH_NULL;
	job->cipher_start_src_offset_in_bytes = 0;
	job->msg_len_to_cipher_in_bytes = 0;
	job->hash_start_src_offset_in_bytes = 0;
	job->msg_len_to_hash_in_bytes = 0;
	job->enc_keys = NULL;
	job->dec_keys = NULL;
	job->iv = NULL;
	job->iv_len_in_bytes = 0;
	job->key_len_in_bytes = 0;
	job->auth_tag_output = NULL;
	job->auth_tag_output_len_in_bytes = 0;

	switch (a) {
	case A_ZUC128_EEA3:
	case A_ZUC256_EEA3_IV25:
	case A_ZUC256_EEA3_IV23:
		job->cipher_mode = IMB_CIPHER_ZUC_EEA3;
		job->enc_keys = c->key;
		job->dec_keys = c->key;
		job->key_len_in_bytes = (a == A_ZUC128_EEA3) ? 16 : 32;
		job->iv = c->iv;
		job->iv_len_in_bytes = (a == A_ZUC128_EEA3) ? 16 : (a == A_ZUC256_EEA3_IV25) ? 25 : 23;
		job->msg_len_to_cipher_in_bytes = c->nbytes;
		break;
	case A_ZUC128_EIA3:
		job->hash_alg = IMB_AUTH_ZUC_EIA3_BITLEN;
		job->u.ZUC_EIA3._key = c->key;
		job->u.ZUC_EIA3._iv = c->iv;
		job->u.ZUC_EIA3._iv23 = NULL;
		job->msg_len_to_hash_in_bits = c->bits;
		job->auth_tag_output = c->tag;
		job->auth_tag_output_len_in_bytes = 4;
		break;
	case A_ZUC256_EIA3_T4_IV25:
	case A_ZUC256_EIA3_T8_IV25:
	case A_ZUC256_EIA3_T16_IV25:
	case A_ZUC256_EIA3_T4_IV23:
	case A_ZUC256_EIA3_T8_IV23:
	case A_ZUC256_EIA3_T16_IV23: {
		const int k = (int) a - (int) A_ZUC256_EIA3_T4_IV25;

		job->hash_alg = IMB_AUTH_ZUC256_EIA3_BITLEN;
		job->u.ZUC_EIA3._key = c->key;
		if (k < 3) {
			job->u.ZUC_EIA3._iv = c->iv;
			job->u.ZUC_EIA3._iv23 = NULL;
		} else {
			job->u.ZUC_EIA3._iv = NULL;
			job->u.ZUC_EIA3._iv23 = c->iv;
		}
		job->msg_len_to_hash_in_bits = c->bits;
		job->auth_tag_output = c->tag;
		job->auth_tag_output_len_in_bytes = (uint64_t) 4 << (k % 3);
		break;
	}
	case A_SNOW3G_UEA2:
		job->cipher_mode = IMB_CIPHER_SNOW3G_UEA2_BITLEN;
		job->enc_keys = c->sched;
		job->dec_keys = c->sched;
		job->key_len_in_bytes = 16;
		job->iv = c->iv;
		job->iv_len_in_bytes = 16;
		job->cipher_start_src_offset_in_bits = 0;
		job->msg_len_to_cipher_in_bits = c->bits;
		break;
	case A_SNOW3G_UIA2:
		job->hash_alg = IMB_AUTH_SNOW3G_UIA2_BITLEN;
		job->u.SNOW3G_UIA2._key = c->sched;
		job->u.SNOW3G_UIA2._iv = c->iv;
		job->msg_len_to_hash_in_bits = c->bits;
		job->auth_tag_output = c->tag;
		job->auth_tag_output_len_in_bytes = 4;
		break;
	case A_KASUMI_F8:
		job->cipher_mode = IMB_CIPHER_KASUMI_UEA1_BITLEN;
		job->enc_keys = c->sched;
		job->dec_keys = c->sched;
		job->key_len_in_bytes = 16;
		job->iv = c->iv;
		job->iv_len_in_bytes = 8;
		job->cipher_start_src_offset_in_bits = 0;
		job->msg_len_to_cipher_in_bits = c->bits;
		break;
	case A_KASUMI_F9:
		job->hash_alg = IMB_AUTH_KASUMI_UIA1;
		job->u.KASUMI_UIA1._key = c->sched;
		job->msg_len_to_hash_in_bytes = c->nbytes;
		job->auth_tag_output = c->tag;
		job->auth_tag_output_len_in_bytes = 4;
		break;
	case A_SNOWV:
		job->cipher_mode = IMB_CIPHER_SNOW_V;
		job->chain_order = IMB_ORDER_HASH_CIPHER;
		job->enc_keys = c->key;
		job->dec_keys = c->key;
		job->key_len_in_bytes = 32;
		job->iv = c->iv;
		job->iv_len_in_bytes = 16;
		job->msg_len_to_cipher_in_bytes = c->nbytes;
		break;
	case A_SNOWV_AEAD_ENC:
	case A_SNOWV_AEAD_DEC:
		job->cipher_mode = IMB_CIPHER_SNOW_V_AEAD;
		job->hash_alg = IMB_AUTH_SNOW_V_AEAD;
		job->chain_order = IMB_ORDER_HASH_CIPHER;
		job->cipher_direction = (a == A_SNOWV_AEAD_ENC) ? IMB_DIR_ENCRYPT : IMB_DIR_DECRYPT;
		job->enc_keys = c->key;
		job->dec_keys = c->key;
		job->key_len_in_bytes = 32;
		job->iv = c->iv;
		job->iv_len_in_bytes = 16;
		job->msg_len_to_cipher_in_bytes = c->nbytes;
		job->u.SNOW_V_AEAD.aad = c->aad;
		job->u.SNOW_V_AEAD.aad_len_in_bytes = c->aadlen;
		job->auth_tag_output = c->tag;
		job->auth_tag_output_len_in_bytes = 16;
		break;
	default:
		break;
	}
}

static int
all_equal(const uint8_t *p, size_t n, uint8_t v)
{
	size_t i;

	for (i = 0; i < n; i++)
		if (p[i] != v)
			return 0;
	return 1;
}

static void
check_case(enum alg a, struct tcase *c, struct result *r)
{
	static uint8_t exp[MAXBYTES + 16];
	uint8_t exptag[16];
	const uint8_t *got = c->dst + GUARD;
	int taglen = 0, bad = 0, has_data = 0;
	size_t cmp_bits = 0;

	r->cases++;
	if (!c->done || c->status != IMB_STATUS_COMPLETED) {
		r->not_completed++;
		if (verbose_left-- > 0)
			printf("    NOT COMPLETED %s bits=%llu done=%d status=%d\n", alg_name[a],
			       (unsigned long long) c->bits, c->done, c->status);
		return;
	}

	switch (a) {
	case A_ZUC128_EEA3:
		ref_zuc_eea3(c->key, c->iv, c->src, exp, c->nbytes);
		has_data = 1;
		break;
	case A_ZUC256_EEA3_IV25:
		ref_zuc256_eea3(c->key, c->iv, 25, c->src, exp, c->nbytes);
		has_data = 1;
		break;
	case A_ZUC256_EEA3_IV23:
		ref_zuc256_eea3(c->key, c->iv, 23, c->src, exp, c->nbytes);
		has_data = 1;
		break;
	case A_ZUC128_EIA3:
		ref_zuc_eia3(c->key, c->iv, c->src, c->bits, exptag);
		taglen = 4;
		break;
	case A_ZUC256_EIA3_T4_IV25:
	case A_ZUC256_EIA3_T8_IV25:
	case A_ZUC256_EIA3_T16_IV25:
	case A_ZUC256_EIA3_T4_IV23:
	case A_ZUC256_EIA3_T8_IV23:
	case A_ZUC256_EIA3_T16_IV23: {
		const int k = (int) a - (int) A_ZUC256_EIA3_T4_IV25;

		taglen = 4 << (k % 3);
		ref_zuc256_eia3(c->key, c->iv, k < 3 ? 25 : 23, c->src, c->bits, exptag, taglen);
		break;
	}
	case A_SNOW3G_UEA2:
		ref_snow3g_uea2(c->key, c->iv, c->src, exp, c->bits);
		has_data = 1;
		break;
	case A_SNOW3G_UIA2:
		ref_snow3g_uia2(c->key, c->iv, c->src, c->bits, exptag);
		taglen = 4;
		break;
	case A_KASUMI_F8:
		ref_kasumi_f8(c->key, c->iv, c->src, exp, c->bits);
		has_data = 1;
		break;
	case A_KASUMI_F9:
		ref_kasumi_f9(c->key, c->src, c->nbytes, exptag);
		taglen = 4;
		break;
	case A_SNOWV:
		ref_snowv(c->key, c->iv, c->src, exp, c->nbytes);
		has_data = 1;
		break;
	case A_SNOWV_AEAD_ENC:
		ref_snowv_aead_enc(c->key, c->iv, c->aad, c->aadlen, c->src, exp, c->nbytes, exptag);
		has_data = 1;
		taglen = 16;
		break;
	case A_SNOWV_AEAD_DEC:
		ref_snowv_aead_dec(c->key, c->iv, c->aad, c->aadlen, c->src, exp, c->nbytes, exptag);
		has_data = 1;
		taglen = 16;
		break;
	default:
		break;
	}

	if (has_data) {
		const size_t full = (size_t) (c->bits / 8);
		const unsigned rem = (unsigned) (c->bits % 8);

		cmp_bits = (size_t) c->bits;
		if (memcmp(got, exp, full) != 0)
			bad = 1;
		if (rem) {
			const uint8_t mask = (uint8_t) (0xFF << (8 - rem));
			const uint8_t tail_got = got[full] & (uint8_t) ~mask;

			if ((got[full] ^ exp[full]) & mask)
				bad = 1;
			/* what did the library do with the bits beyond the length? count, per
			 * hypothesis, the cases consistent with it */
			{
				const uint8_t nm = (uint8_t) ~mask;
				const uint8_t ks_tail = (uint8_t) ((exp[full] ^ c->src[full]) & nm);

				r->tail_cases++;
				if (tail_got == (exp[full] & nm))
					r->tail_whole_byte++; /* (src ^ ks), source tail bits included */
				if (tail_got == ks_tail)
					r->tail_ks_only++; /* source tail bits taken as 0 */
				if (tail_got == (0xA5 & nm))
					r->tail_preserved++; /* destination bits left alone */
				if (tail_got == 0)
					r->tail_zero++;
			}
		}
		/* guards */
		if (!all_equal(c->dst, GUARD, 0xA5) || !all_equal(got + c->nbytes, GUARD, 0xA5)) {
			r->guard_hits++;
			if (verbose_left-- > 0) {
				printf("    GUARD overwritten %s bits=%llu\n", alg_name[a],
				       (unsigned long long) c->bits);
				hex("before:", c->dst, GUARD);
				hex("after: ", got + c->nbytes, GUARD);
			}
		}
	}
	if (taglen) {
		if (memcmp(c->tag, exptag, (size_t) taglen) != 0)
			bad = 1;
		if (!all_equal(c->tag + taglen, (size_t) (16 + GUARD - taglen), 0x5A)) {
			r->guard_hits++;
			if (verbose_left-- > 0) {
				printf("    TAG GUARD overwritten %s bits=%llu taglen=%d\n", alg_name[a],
				       (unsigned long long) c->bits, taglen);
				hex("tag buf:", c->tag, 16 + GUARD);
			}
		}
	}
	if (bad) {
		r->mismatches++;
		if (verbose_left-- > 0) {
			printf("    MISMATCH %s bits=%llu (bytes=%zu) aadlen=%zu\n", alg_name[a],
			       (unsigned long long) c->bits, c->nbytes, c->aadlen);
			hex("key:", c->key, 32);
			hex("iv: ", c->iv, 25);
			if (has_data) {
				const size_t nb = (cmp_bits + 7) / 8;
				size_t i, first = nb;

				for (i = 0; i < nb; i++)
					if (got[i] != exp[i]) {
						first = i;
						break;
					}
				printf("      first differing byte: %zu of %zu\n", first, nb);
				hex("src:", c->src, nb > 48 ? 48 : nb);
				hex("lib:", got, nb > 48 ? 48 : nb);
				hex("ref:", exp, nb > 48 ? 48 : nb);
			}
			if (taglen) {
				if (!has_data)
					hex("msg:", c->src, c->nbytes > 48 ? 48 : c->nbytes);
				hex("lib tag:", c->tag, (size_t) taglen);
				hex("ref tag:", exptag, (size_t) taglen);
			}
		}
	}
}

static void
collect(IMB_JOB *job)
{
	struct tcase *c;

	if (job == NULL)
		return;
	c = (struct tcase *) job->user_data;
	c->done++;
	c->status = (int) job->status;
}

/* run one batch of n prepared cases */
static void
run_batch(IMB_MGR *mgr, enum alg a, struct tcase *cs, int n, struct result *r)
{
	int i;
	IMB_JOB *job;

	for (i = 0; i < n; i++) {
		job = IMB_GET_NEXT_JOB(mgr);
		fill_job(mgr, job, a, &cs[i], i);
		job = IMB_SUBMIT_JOB(mgr);
		if (job == NULL) {
			const int err = imb_get_errno(mgr);

			if (err != 0 && verbose_left-- > 0)
				printf("    submit error %d (%s) %s bits=%llu\n", err, imb_get_strerror(err),
				       alg_name[a], (unsigned long long) cs[i].bits);
		}
		while (job != NULL) {
			collect(job);
			job = IMB_GET_COMPLETED_JOB(mgr);
		}
	}
	while ((job = IMB_FLUSH_JOB(mgr)) != NULL)
		collect(job);
	for (i = 0; i < n; i++)
		check_case(a, &cs[i], r);
}

static void
prep_case(IMB_MGR *mgr, enum alg a, struct tcase *c, uint64_t bits, int garbage_tail)
{
	c->bits = bits;
	c->nbytes = (size_t) ((bits + 7) / 8);
	c->done = 0;
	c->status = -1;
	rnd_fill(c->key, 32);
	rnd_fill(c->iv, 32);
	rnd_fill(c->src, c->nbytes);
	memset(c->src + c->nbytes, 0xEE, GUARD);
	if ((bits % 8) && !garbage_tail && is_mac(a)) /* ciphers always keep random source tail bits */
		c->src[c->nbytes - 1] &= (uint8_t) (0xFF << (8 - (bits % 8)));
	memset(c->dst, 0xA5, sizeof(c->dst));
	memset(c->tag, 0x5A, sizeof(c->tag));
	c->aadlen = 0;
	if (a == A_SNOWV_AEAD_ENC || a == A_SNOWV_AEAD_DEC) {
		c->aadlen = (size_t) (rnd64() % 49);
		rnd_fill(c->aad, c->aadlen);
	}
	if (a == A_ZUC256_EEA3_IV25 || (a >= A_ZUC256_EIA3_T4_IV25 && a <= A_ZUC256_EIA3_T16_IV25)) {
		/* keep the 6-bit IV values in range half of the time, arbitrary top bits otherwise */
		if (rnd64() & 1) {
			int j;

			for (j = 17; j < 25; j++)
				c->iv[j] &= 0x3F;
		}
	}
	if (a == A_SNOW3G_UEA2 || a == A_SNOW3G_UIA2) {
		if (IMB_SNOW3G_INIT_KEY_SCHED(mgr, c->key, c->sched) != 0)
			printf("    SNOW3G key sched failed\n");
	} else if (a == A_KASUMI_F8) {
		if (IMB_KASUMI_INIT_F8_KEY_SCHED(mgr, c->key, c->sched) != 0)
			printf("    KASUMI F8 key sched failed\n");
	} else if (a == A_KASUMI_F9) {
		if (IMB_KASUMI_INIT_F9_KEY_SCHED(mgr, c->key, c->sched) != 0)
			printf("    KASUMI F9 key sched failed\n");
	}
}

/* the list of lengths (in bits) swept for an algorithm */
static size_t
length_list(enum alg a, uint64_t *out)
{
	size_t n = 0;
	uint64_t i;

	if (a == A_KASUMI_F9) {
		for (i = 9; i <= 300; i++)
			out[n++] = 8 * i;
	} else if (is_mac(a)) {
		static const uint64_t extra[] = { 521,  575,  576,  577,  1000, 1023, 1024, 1025, 2047,
						  2048, 2049, 4095, 4096, 4097, 8191, 8192, 8200, 16448 };

		for (i = 1; i <= 520; i++)
			out[n++] = i;
		for (i = 0; i < sizeof(extra) / sizeof(extra[0]); i++)
			out[n++] = extra[i];
	} else {
		for (i = (a == A_SNOWV_AEAD_ENC || a == A_SNOWV_AEAD_DEC || a == A_SNOWV) ? 0 : 1; i <= 300;
		     i++)
			out[n++] = 8 * i;
		if (is_bit_cipher(a))
			for (i = 1; i <= 520; i++)
				if (i % 8)
					out[n++] = i;
	}
	return n;
}

static void
sweep(IMB_MGR *mgr, enum alg a, int garbage_tail, struct result *r)
{
	static struct tcase cs[BATCH];
	static uint64_t lens[2048];
	static uint64_t plan[2048 * NKEYS];
	size_t nl, np = 0, i, pos;
	int k, j;
	size_t sched_sz = 0;

	if (a == A_SNOW3G_UEA2 || a == A_SNOW3G_UIA2)
		sched_sz = IMB_SNOW3G_KEY_SCHED_SIZE(mgr);
	else if (a == A_KASUMI_F8 || a == A_KASUMI_F9)
		sched_sz = IMB_KASUMI_KEY_SCHED_SIZE(mgr);
	for (j = 0; j < BATCH; j++)
		cs[j].sched = sched_sz ? malloc(sched_sz) : NULL;

	nl = length_list(a, lens);
	for (k = 0; k < NKEYS; k++)
		for (i = 0; i < nl; i++)
			plan[np++] = lens[i];
	/* shuffle so that one batch mixes short and long messages */
	for (i = np - 1; i > 0; i--) {
		const size_t s = (size_t) (rnd64() % (i + 1));
		const uint64_t t = plan[i];

		plan[i] = plan[s];
		plan[s] = t;
	}
	for (pos = 0; pos < np;) {
		int n = 0;

		/* vary the number of jobs in flight: 1 .. BATCH */
		const int want = 1 + (int) (rnd64() % BATCH);

		while (n < want && pos < np)
			prep_case(mgr, a, &cs[n++], plan[pos++], garbage_tail);
		run_batch(mgr, a, cs, n, r);
	}
	for (j = 0; j < BATCH; j++)
		free(cs[j].sched);
}

/* ---------------------------------------------------------------------------------------- */
struct variant {
	const char *name;
	void (*init)(IMB_MGR *);
	uint64_t flags;
};

static const struct variant variants[] = {
	{ "sse/SHANI_OFF", init_mb_mgr_sse, IMB_FLAG_SHANI_OFF },
	{ "sse/GFNI_OFF", init_mb_mgr_sse, IMB_FLAG_GFNI_OFF },
	{ "sse", init_mb_mgr_sse, 0 },
	{ "avx2/GFNI_OFF", init_mb_mgr_avx2, IMB_FLAG_GFNI_OFF },
	{ "avx2", init_mb_mgr_avx2, 0 },
	{ "avx512/GFNI_OFF", init_mb_mgr_avx512, IMB_FLAG_GFNI_OFF },
	{ "avx512", init_mb_mgr_avx512, 0 },
};

#define NVARIANTS (sizeof(variants) / sizeof(variants[0]))

static IMB_MGR *
make_mgr(const struct variant *v)
{
	IMB_MGR *mgr = alloc_mb_mgr(v->flags);

	if (mgr == NULL)
		return NULL;
	v->init(mgr);
	if (imb_get_errno(mgr) != 0) {
		free_mb_mgr(mgr);
		return NULL;
	}
	return mgr;
}

/* returns number of disagreements (or -1 on crash) */
static long
run_child(const struct variant *v, enum alg a, int garbage_tail)
{
	pid_t pid;
	int st;
	int pfd[2];
	long bad = -1;

	fflush(stdout);
	if (pipe(pfd) != 0)
		return -1;
	pid = fork();
	if (pid == 0) {
		struct result r;
		IMB_MGR *mgr;
		long out;

		close(pfd[0]);
		memset(&r, 0, sizeof(r));
		rng ^= ((uint64_t) a << 32) ^ (uint64_t) (v - variants) * 0x1234567ULL ^ (uint64_t) garbage_tail;
		mgr = make_mgr(v);
		if (mgr == NULL) {
			printf("  %-16s %-22s SKIPPED (arch not available)\n", v->name, alg_name[a]);
			out = 0;
		} else {
			sweep(mgr, a, garbage_tail, &r);
			printf("  %-16s(t%u) %-22s%s cases %5lu  mismatch %lu  not-completed %lu  guard %lu",
			       v->name, (unsigned) mgr->used_arch_type, alg_name[a],
			       garbage_tail ? " [garbage tail bits]" : "", r.cases, r.mismatches, r.not_completed,
			       r.guard_hits);
			if (is_bit_cipher(a))
				printf("  | last-byte tail bits (%lu cases) consistent with: src^ks %lu, ks-only %lu, dst-preserved %lu, zero %lu",
				       r.tail_cases, r.tail_whole_byte, r.tail_ks_only, r.tail_preserved, r.tail_zero);
			printf("\n");
			out = (long) (r.mismatches + r.not_completed + r.guard_hits);
			free_mb_mgr(mgr);
		}
		fflush(stdout);
		if (write(pfd[1], &out, sizeof(out)) != (ssize_t) sizeof(out))
			_exit(3);
		_exit(0);
	}
	close(pfd[1]);
	if (read(pfd[0], &bad, sizeof(bad)) != (ssize_t) sizeof(bad))
		bad = -1;
	close(pfd[0]);
	waitpid(pid, &st, 0);
	if (!WIFEXITED(st) || WEXITSTATUS(st) != 0) {
		printf("  %-16s %-22s CHILD DIED (status 0x%x)\n", v->name, alg_name[a], st);
		return -1;
	}
	return bad;
}

/* IV generators: library versus reference */
static long
ivgen_check(void)
{
	long bad = 0;
	unsigned long n = 0;
	unsigned bearer, dir, i;
	uint8_t a[16], b[16];

	for (i = 0; i < 2000; i++) {
		const uint32_t count = (i < 4) ? (i == 0 ? 0 : i == 1 ? 0xFFFFFFFFu : i == 2 ? 0x80000000u : 1)
					       : (uint32_t) rnd64();
		const uint32_t fresh = (i < 4) ? (i == 0 ? 0 : i == 1 ? 0xFFFFFFFFu : i == 2 ? 0x00008000u : 1)
					       : (uint32_t) rnd64();

		for (bearer = 0; bearer < 32; bearer++)
			for (dir = 0; dir < 2; dir++) {
				memset(a, 0x11, 16);
				memset(b, 0x22, 16);
				if (zuc_eea3_iv_gen(count, (uint8_t) bearer, (uint8_t) dir, a) != 0)
					bad++;
				ref_zuc_eea3_iv_gen(count, (uint8_t) bearer, (uint8_t) dir, b);
				if (memcmp(a, b, 16) != 0) {
					if (bad++ < 3)
						printf("  zuc_eea3_iv_gen differs count=%08x bearer=%u dir=%u\n", count,
						       bearer, dir);
				}
				memset(a, 0x11, 16);
				if (zuc_eia3_iv_gen(count, (uint8_t) bearer, (uint8_t) dir, a) != 0)
					bad++;
				ref_zuc_eia3_iv_gen(count, (uint8_t) bearer, (uint8_t) dir, b);
				if (memcmp(a, b, 16) != 0) {
					if (bad++ < 3)
						printf("  zuc_eia3_iv_gen differs count=%08x bearer=%u dir=%u\n", count,
						       bearer, dir);
				}
				memset(a, 0x11, 16);
				if (snow3g_f8_iv_gen(count, (uint8_t) bearer, (uint8_t) dir, a) != 0)
					bad++;
				ref_snow3g_f8_iv_gen(count, (uint8_t) bearer, (uint8_t) dir, b);
				if (memcmp(a, b, 16) != 0) {
					if (bad++ < 3)
						printf("  snow3g_f8_iv_gen differs count=%08x bearer=%u dir=%u\n", count,
						       bearer, dir);
				}
				memset(a, 0x11, 16);
				if (kasumi_f8_iv_gen(count, (uint8_t) bearer, (uint8_t) dir, a) != 0)
					bad++;
				ref_kasumi_f8_iv_gen(count, (uint8_t) bearer, (uint8_t) dir, b);
				if (memcmp(a, b, 8) != 0) {
					if (bad++ < 3)
						printf("  kasumi_f8_iv_gen differs count=%08x bearer=%u dir=%u\n", count,
						       bearer, dir);
				}
				n += 4;
			}
		for (dir = 0; dir < 2; dir++) {
			memset(a, 0x11, 16);
			if (snow3g_f9_iv_gen(count, fresh, (uint8_t) dir, a) != 0)
				bad++;
			ref_snow3g_f9_iv_gen(count, fresh, (uint8_t) dir, b);
			if (memcmp(a, b, 16) != 0) {
				if (bad++ < 3)
					printf("  snow3g_f9_iv_gen differs count=%08x fresh=%08x dir=%u\n", count, fresh,
					       dir);
			}
			n++;
		}
		memset(a, 0x11, 16);
		if (kasumi_f9_iv_gen(count, fresh, a) != 0)
			bad++;
		ref_kasumi_f9_iv_gen(count, fresh, b);
		if (memcmp(a, b, 8) != 0) {
			if (bad++ < 3)
				printf("  kasumi_f9_iv_gen differs count=%08x fresh=%08x\n", count, fresh);
		}
		n++;
	}
	printf("  IV generators: %lu comparisons, %ld disagreements\n", n, bad);
	return bad;
}

int
main(int argc, char **argv)
{
	size_t v;
	int a;
	long total_bad = 0, crashes = 0;
	const int only_alg = (argc > 1) ? atoi(argv[1]) : -1;

	setvbuf(stdout, NULL, _IOLBF, 0);
	printf("library version: %s\n", imb_get_version_str());
	total_bad += ivgen_check();

	for (v = 0; v < NVARIANTS; v++) {
		for (a = 0; a < A_NUM; a++) {
			long b;

			if (only_alg >= 0 && a != only_alg)
				continue;
			b = run_child(&variants[v], (enum alg) a, 0);
			if (b < 0)
				crashes++;
			else
				total_bad += b;
			/* MACs over a bit length: repeat with random bits after the end of the message
			 * inside the last byte - the MAC must not depend on them */
			if (is_mac((enum alg) a) && a != A_KASUMI_F9) {
				b = run_child(&variants[v], (enum alg) a, 1);
				if (b < 0)
					crashes++;
				else
					total_bad += b;
			}
		}
	}
	printf("TOTAL disagreements %ld, crashed children %ld\n", total_bad, crashes);
	return (total_bad || crashes) ? 1 : 0;
}
