#!/usr/bin/env python3
"""cmake/ninja does not track nasm %include dependencies in this project: delete every asm (and C) object in a
build directory whose transitive %include / #include closure under /repo/lib is newer than the object, so that
the following ninja run rebuilds it.   usage: asmdeps.py <repo> <builddir>"""
import os, re, sys
repo, bdir = sys.argv[1], sys.argv[2]
lib = os.path.join(repo, 'lib')
inc_re = re.compile(r'^\s*%include\s+"([^"]+)"', re.M)
cache = {}

def includes(path):
    if path in cache:
        return cache[path]
    cache[path] = set()
    try:
        txt = open(path, errors='replace').read()
    except OSError:
        return cache[path]
    out = set()
    for inc in inc_re.findall(txt):
        for base in (lib, os.path.dirname(path), os.path.join(lib, 'include')):
            q = os.path.normpath(os.path.join(base, inc))
            if os.path.exists(q):
                out.add(q)
                out |= includes(q)
                break
    cache[path] = out
    return out

objroot = os.path.join(bdir, 'lib', 'CMakeFiles', 'IPSec_MB.dir')
n = 0
for d, _, files in os.walk(objroot):
    for f in files:
        if not f.endswith('.asm.o'):
            continue
        obj = os.path.join(d, f)
        src = os.path.join(lib, os.path.relpath(obj, objroot)[:-2])
        if not os.path.exists(src):
            continue
        mt = os.path.getmtime(obj)
        deps = includes(src)
        if any(os.path.getmtime(x) > mt for x in deps):
            os.remove(obj)
            n += 1
if n:
    print(f'asmdeps: {n} asm objects invalidated (changed %include files)')
