#!/usr/bin/env python3
"""Regenerates MANIFEST.json from bin/vprops.py (single source of truth for checks)."""
import json, sys
sys.path.insert(0, '/verif/bin')
from vprops import PROPS, NOT_APPLICABLE
ids = [json.loads(l)['id'] for l in open('/verif/properties.jsonl')]
checks = []
for pid in ids:
    if pid not in PROPS:
        continue
    p = PROPS[pid]
    checks.append({
        'property_id': pid,
        'quick_cmd': f'bin/vcheck {pid} quick',
        'thorough_cmd': f'bin/vcheck {pid} thorough',
        'evidence_file': f'/verif/evidence/{pid}.json',
        'replay_cmd_template': 'bin/vcheck --replay {path}',
        'engine': p.get('engine', 'mc'),
        'level_claimed': {'category': p['level'], 'text': p['level_text'], 'design_ref': p.get('design_ref', f'DESIGN.md section 4 / {pid}')},
        'level_note': p['level_note'],
        'technique': p['technique'],
    })
na = [{'property_id': pid, 'reason': NOT_APPLICABLE.get(pid, 'check not built yet in this session (work in progress, see DESIGN.md section 10)')} for pid in ids if pid not in PROPS]
m = {
    'version': 1,
    'setup_cmd': 'bin/setup',
    'hooks': {
        'guard': 'IMB_VERIF_SMALL_RING',
        'enable': 'bin/build-repo ring4|ring8 builds /repo with cmake -DEXTRA_CFLAGS=-DIMB_VERIF_SMALL_RING=<2|4> (job ring of 4/8 slots); drivers for those configs are compiled with the same define',
        'baseline_off_cmd': 'cmake -G Ninja -S /repo -B /repo/_build >/dev/null && cmake --build /repo/_build -j16 >/dev/null && ctest --test-dir /repo/_build -j8 --timeout 900',
        'source_commits': [l.strip() for l in open('/verif/HOOK_COMMITS') if l.strip()],
        'add_only': True,
    },
    'engines': [
        {'name': 'mc', 'path': '/verif/mc', 'serves_properties': [c['property_id'] for c in checks],
         'kind_free_text': 'explicit-state BFS / deviation-bounded / bounded-exhaustive shape and fault enumeration executed on the real library (the implementation is the transition relation), with call trampoline, guard-page arena, fork-isolated parallel runner'},
    ],
    'checks': checks,
    'not_applicable': na,
    'notes': 'Every check = bin/vcheck <ID> <tier>: rebuilds the needed library configuration(s) from /repo\'s working tree into /verif/build, builds and runs the driver(s), classifies violations against KNOWN_FINDINGS.json, writes evidence/<ID>.json. VERIF_SEED only selects data bytes.',
}
json.dump(m, open('/verif/MANIFEST.json', 'w'), indent=1)
print('checks:', [c['property_id'] for c in checks], 'n/a:', len(na))
