#!/usr/bin/env python3
# summarise replay files of the last run: tools/vsum.py C01
import json,glob,sys,collections
c=collections.Counter()
ex={}
tier=sys.argv[2] if len(sys.argv)>2 else 'quick'
for l in open(f'/verif/build/out/{sys.argv[1]}.{tier}.last.jsonl'):
    r=json.loads(l)
    if r.get('type')!='viol': continue
    k=(r.get('site'),r.get('alg'),r.get('variant'),r.get('dir'))
    c[k]+=1; ex.setdefault(k,r)
for k,n in sorted(c.items(),key=str):
    r=ex[k]; print(n,k,{x:r[x] for x in ('len','off','inplace','ivlen','ivclass','taglen','aadlen','x','detail','signal','path') if x in r and x!='detail'})
