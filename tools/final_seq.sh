#!/bin/bash
# final_seq.sh: the end-of-session sequence on the final tree (run under `vp run --`):
#  1. tools/seedcheck.sh over every kept seeded change            -> seeded/RESULTS.txt
#  2. quick tier of every check, sequentially                     -> tools/cost_quick.json
#  3. thorough tier of every check, short ones first              -> build/logs/thorough_all.log
V=$(dirname $(dirname $(realpath $0))); cd $V
mkdir -p build/logs
if [ "$1" != "noseed" ]; then
  tools/seedcheck.sh > build/logs/seedcheck.log 2>&1
  echo "SEEDCHECK DONE $(date)" >> build/logs/seedcheck.log
fi
python3 - <<'P'
import json,subprocess,time
res={}
for i in range(1,21):
    p=f'C{i:02d}'; t=time.time()
    r=subprocess.run(['bin/vcheck',p,'quick'],capture_output=True,text=True)
    last=[l for l in r.stdout.splitlines() if l.startswith(p+' quick')]
    res[p]={'rc':r.returncode,'wall_s':round(time.time()-t,1),'line':last[-1] if last else ''}
    json.dump(res,open('tools/cost_quick.json','w'),indent=1)
P
: > build/logs/thorough_all.log
for p in C02 C09 C12 C13 C20 C11 C08 C16 C03 C01 C15 C07 C19 C14 C18 C17 C10 C06 C04 C05; do
  t0=$(date +%s); out=$(bin/vcheck $p thorough 2>&1); rc=$?; t1=$(date +%s)
  echo "$p rc=$rc t=$((t1-t0))s viol=$(echo "$out" | grep -c '^VIOLATION') | $(echo "$out" | grep "^$p thorough" | tail -1)" >> build/logs/thorough_all.log
done
echo ALLDONE >> build/logs/thorough_all.log
