#!/bin/bash
# confirm_mut.sh <worktree> <outdir>: independent confirmation of a seeded change:
#  (1) builds the patched tree, (2) runs the pinned test suite on it, (3) runs demo.c against the patched and
#  against the original library (/repo/_build = pristine pinned build). Writes <outdir>/confirm.txt
wt=$1; out=$2; log=$out/confirm.txt
{
echo "== $(date) worktree $wt"
git -C $wt diff --stat | tail -2
rm -rf $wt/_build
( cd $wt && cmake -G Ninja -B _build -DCMAKE_BUILD_TYPE=RelWithDebInfo >/dev/null && cmake --build _build -j8 >/dev/null 2>&1 ) || { echo "BUILD FAILED"; exit 1; }
echo "build ok"
ctest --test-dir $wt/_build -j8 --timeout 900 2>&1 | tail -4
buildline=$(grep -m1 -o 'gcc[^*]*' $out/demo.c | head -1)
for which in patched original; do
  if [ $which = patched ]; then L=$wt/_build/lib; else L=${ORIG_LIB:-/repo/_build/lib}; fi
  gcc -O1 -o $out/demo_$which $out/demo.c -I$wt/lib -L$L -lIPSec_MB -lpthread 2>$out/demo_build_$which.log || echo "demo build failed ($which)"
  LD_LIBRARY_PATH=$L timeout 600 $out/demo_$which >$out/demo_$which.out 2>&1; echo "demo on $which library: exit $?"
done
rm -rf $wt/_build
echo "== done $(date)"
} > $log 2>&1
