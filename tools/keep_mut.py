#!/usr/bin/env python3
"""keep_mut.py <src outdir> <name> <caught_by> : store a confirmed seeded change under /verif/seeded/<name>/"""
import json, os, shutil, sys, re
src, name, caught = sys.argv[1], sys.argv[2], sys.argv[3]
dst = f'/verif/seeded/{name}'
os.makedirs(dst, exist_ok=True)
for f in ('patch.diff', 'demo.c'):
    shutil.copy(f'{src}/{f}', f'{dst}/{f}')
meta = json.load(open(f'{src}/meta.json'))
conf = open(f'{src}/confirm.txt', errors='replace').read() if os.path.exists(f'{src}/confirm.txt') else ''
m = re.search(r'(\d+)% tests passed, (\d+) tests failed out of (\d+)', conf)
meta_out = {
    'property': meta.get('property'),
    'summary': meta.get('summary'),
    'needs_to_manifest': meta.get('needs'),
    'files': meta.get('files'),
    'origin': 'fresh sub-agent given only the property text and a scratch worktree',
    'confirmed_by_me': {
        'how': 'tools/confirm_mut.sh: rebuilt the patched worktree from scratch, ran the pinned ctest suite (-j8), built demo.c against the patched build and against the pristine pinned build (/repo/_build)',
        'pinned_tests': m.group(0) if m else 'see confirm.txt',
        'demo_on_patched': (re.search(r'demo on patched library: exit (\d+)', conf) or [None, '?'])[1],
        'demo_on_original': (re.search(r'demo on original library: exit (\d+)', conf) or [None, '?'])[1],
    },
    'caught_by': caught,
}
json.dump(meta_out, open(f'{dst}/meta.json', 'w'), indent=1)
print('kept', dst)
