#!/bin/bash
# usage: tools/c13diag.sh '<unit>:<variant>:<n>:<manager|registers|stack>'
# Names the library instruction that last wrote the first key-derived word the C13 differential pass reports for that cell
# (gdb hardware watchpoint between diag_ready()/diag_done()); uses the driver binary vcheck built last (build/bin/c13-std).
V=$(dirname $(dirname $(realpath $0)))
cat > /tmp/c13diag.gdb <<G
set pagination off
set confirm off
break diag_ready
run
finish
watch -l *(unsigned int *) \$rdi
commands
silent
printf "WRITE pc="
output/a \$pc
printf " val=%08x\n", *(unsigned int *) watchaddr
continue
end
G
# simpler, robust flow in python-less gdb: stop in diag_ready, set watchpoint on the address passed in rdi
cat > /tmp/c13diag.gdb <<'G'
set pagination off
set confirm off
break diag_ready
break diag_done
run
set $a = (unsigned int *) $rdi
watch *$a
commands 3
silent
printf "WRITE "
info symbol $pc
info line *$pc
continue
end
continue
G
C13_DIAG="$1" VERIF_OUT=/tmp/c13diag.out gdb -q -batch -x /tmp/c13diag.gdb $V/build/bin/c13-std 2>&1 | grep -E "DIAG|WRITE|^Line|^No line" | tail -${2:-8}
