#!/usr/bin/env python3
# prints the prompt handed to a mutation sub-agent: property text only + its scratch worktree
import json,sys
pid=sys.argv[1]; wt=sys.argv[2]; out=sys.argv[3]; extra=sys.argv[4] if len(sys.argv)>4 else ""
for l in open('/verif/properties.jsonl'):
    p=json.loads(l)
    if p['id']==pid: break
print(f"""You are helping to evaluate a verification effort for the open-source library intel/intel-ipsec-mb (Intel's multi-buffer crypto library). Your job: act as a *fault seeder*. You have your own scratch git worktree of the library at {wt} (already created; work ONLY inside it and inside {out}; never touch /repo or /verif, and do not read anything under /verif).

The property that must normally hold for this library:

TITLE: {p['title']}
STATEMENT: {p['statement']}
QUANTIFIED OVER: {p['quantifier']['text']}

Task: make ONE small, realistic source change to the library (under {wt}/lib) that BREAKS this property, while
 (a) the library and its test applications still compile, and
 (b) the project's existing test suite still passes completely, and
 (c) the breakage needs something SPECIFIC to manifest - a particular length/alignment/IV value, a particular lane occupancy or flush point, a multi-step sequence of API calls, a particular variant (SSE/AVX2/AVX512 type), a crash/re-init at a particular point, two cooperating sites that each look fine alone - NOT something ordinary use would expose at once. Think of the kind of bug a maintainer could plausibly introduce in a refactor (off-by-one in a tail path, wrong register in one flush routine, a mask row for one lane, a missing reset, an early advance of an index, a scratch buffer made static, a forgotten clear, etc.). {extra}

How to build and test (no network; everything is installed): 
  cd {wt} && cmake -G Ninja -B _build -DCMAKE_BUILD_TYPE=RelWithDebInfo >/dev/null && cmake --build _build -j6
  ctest --test-dir {wt}/_build -j6 --timeout 900      (753 tests, several minutes; ALL must pass with your change)
The host CPU supports SSE, AVX2 and AVX512 (VAES/GFNI/SHANI present; no AVX-IFMA). Library variants are selected with init_mb_mgr_sse/avx2/avx512(mgr) after alloc_mb_mgr(flags) with flags 0 / IMB_FLAG_SHANI_OFF / IMB_FLAG_GFNI_OFF. A static-lib quick build for your demo: link your program against {wt}/_build/lib/libIPSec_MB.so (set LD_LIBRARY_PATH) with -I{wt}/lib.

Deliver, in {out}/ :
  patch.diff   - `git -C {wt} diff` of your change (library sources only; do not change tests)
  demo.c       - a small standalone C program (plus build line in a comment at the top) that exits 0 on the ORIGINAL library and exits non-zero (or crashes) on the patched library, demonstrating the property violation through the public API
  meta.json    - {{"property":"{pid}","summary":"...","needs":"what specific condition is needed to manifest","files":[...],"tests_passed":true/false,"demo_fails_with_patch":true/false,"demo_passes_without":true/false}}
Verify all three claims yourself (build original via `git stash` or a second build dir, run the demo on both, run the full ctest with the patch). If the test suite fails with your change, pick a different change. Keep the change minimal (a few lines). When done, remove your build directory ({wt}/_build) to save disk but leave the source change in place in the worktree. Report in your final message: the summary, what it needs to manifest, and confirmation of the three checks.""")
