#!/usr/bin/env python3
"""mkdesign.py: splice tools/design_tail.md (sections 5-9, as built) into DESIGN.md, filling the generated tables:
 @@FIND_TABLE@@ from KNOWN_FINDINGS.json, @@SEED_TABLE@@ from seeded/*/meta.json + seeded/RESULTS.txt,
 @@COST_TABLE@@ from evidence/*.json (last quick run) + build/logs/thorough_all.log, @@CTEST@@ from tools/ctest_final.txt"""
import json, glob, os, re
V = os.path.dirname(os.path.dirname(os.path.abspath(__file__)))
tail = open(f'{V}/tools/design_tail.md').read()
# findings
rows = ['| # | property (also seen by) | fix commit | defect and failing input |', '|---|---|---|---|']
for f in json.load(open(f'{V}/KNOWN_FINDINGS.json'))['findings']:
    what = re.sub(r'^fixed: property=\S+ \S+ ', '', f['what'])
    rows.append(f"| {f['id']} | {f['property']} ({', '.join(f.get('also') or []) or '-'}) | {f.get('fix_commit','-') if f['status']=='fixed' else 'open'} | {what} |")
tail = tail.replace('@@FIND_TABLE@@', '\n'.join(rows))
# seeded
res = {}
if os.path.exists(f'{V}/seeded/RESULTS.txt'):
    for l in open(f'{V}/seeded/RESULTS.txt'):
        m = re.match(r'(\S+) check=(\S+) rc=(\S+) violations=(\d+) (\S+)', l)
        if m:
            res.setdefault(m.group(1), []).append((m.group(2), m.group(5), m.group(4)))
rows = ['| seeded change | breaks | what it does | caught by (last `seedcheck` run) |', '|---|---|---|---|']
for d in sorted(glob.glob(f'{V}/seeded/*/meta.json')):
    name = os.path.basename(os.path.dirname(d))
    m = json.load(open(d))
    summ = (m.get('summary') or '').replace('|', '/').replace('\n', ' ')
    summ = summ[:230] + ('…' if len(summ) > 230 else '')
    r = res.get(name)
    caught = ', '.join(f"{c}: {st.lower()} ({n})" for c, st, n in r) if r else m.get('caught_by', '?')
    rows.append(f"| `{name}` | {m.get('property')} | {summ} | {caught} |")
tail = tail.replace('@@SEED_TABLE@@', '\n'.join(rows))
tail = tail.replace('@@NSEED@@', str(len(glob.glob(f'{V}/seeded/*/meta.json'))))
# cost
th = {}
if os.path.exists(f'{V}/build/logs/thorough_all.log'):
    for l in open(f'{V}/build/logs/thorough_all.log'):
        m = re.match(r'(C\d+) rc=(\d+) t=(\d+)s viol=(\d+) \| (.*)', l)
        if m:
            th[m.group(1)] = m
rows = ['| id | quick: wall s, cases | thorough: wall s, result line |', '|---|---|---|']
if os.path.exists(f'{V}/tools/cost_quick.json'):
    q = json.load(open(f'{V}/tools/cost_quick.json'))
else:
    q = {}
for i in range(1, 21):
    pid = f'C{i:02d}'
    t = th.get(pid)
    qq = q.get(pid)
    qs = ('rc=%s, %s s; %s' % (qq['rc'], qq['wall_s'], qq['line'].replace('|', '/'))) if isinstance(qq, dict) else '-'
    rows.append(f"| {pid} | {qs} | {('rc=%s, %s s; %s' % (t.group(2), t.group(3), t.group(5).replace('|','/'))) if t else '-'} |")
tail = tail.replace('@@COST_TABLE@@', '\n'.join(rows))
ct = open(f'{V}/tools/ctest_final.txt').read().strip() if os.path.exists(f'{V}/tools/ctest_final.txt') else 'see tools/ctest_final.txt'
tail = tail.replace('@@CTEST@@', ct.replace('\n', '; '))
d = open(f'{V}/DESIGN.md').read()
nf = len(json.load(open(f'{V}/KNOWN_FINDINGS.json'))['findings'])
ns = len(glob.glob(f'{V}/seeded/*/meta.json'))
d = re.sub(r'found \d+ genuine defects', f'found {nf} genuine defects', d)
d = re.sub(r'^\w+ seeded property-breaking changes that compile', f'{ns} seeded property-breaking changes that compile', d, flags=re.M)
a = d.index('## 5. ')
b = d.index('## Appendix A')
d = d[:a] + tail + '\n---------------------------------------------------------------------------\n\n' + d[b:]
open(f'{V}/DESIGN.md', 'w').write(d)
print('DESIGN.md updated')
