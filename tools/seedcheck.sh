#!/bin/bash
# seedcheck.sh [name-pattern]: for every kept seeded change under /verif/seeded/<name>/ apply patch.diff to /repo's
# working tree, run the quick tier of each check named in meta.json "caught_by", record whether it printed a
# VIOLATION line, and undo the change (git -C /repo checkout -- .). Nothing is committed to /repo.
# Output: one line per (change, check) on stdout and /verif/seeded/RESULTS.txt.
V=$(dirname $(dirname $(realpath $0))); REPO=${VERIF_REPO:-/repo}
pat=${1:-}
[ -z "$(git -C $REPO status --porcelain --untracked-files=no)" ] || { echo "refusing: /repo working tree not clean"; exit 2; }
res=$V/seeded/RESULTS.txt; [ -z "$pat" ] && : > $res
for d in $V/seeded/*${pat}*/; do
  name=$(basename $d)
  [ -f $d/patch.diff ] || continue
  checks=$(python3 -c "import json;print(' '.join(json.load(open('$d/meta.json'))['caught_by'].split(',')))")
  if ! git -C $REPO apply --check $d/patch.diff 2>/dev/null; then echo "$name: PATCH DOES NOT APPLY" | tee -a $res; continue; fi
  git -C $REPO apply $d/patch.diff
  for c in $checks; do
    out=$($V/bin/vcheck $c quick 2>&1); rc=$?
    n=$(echo "$out" | grep -c '^VIOLATION')
    first=$(echo "$out" | grep -m1 '^VIOLATION' | cut -c1-260)
    echo "$name check=$c rc=$rc violations=$n $( [ $rc -eq 1 ] && [ $n -gt 0 ] && echo DETECTED || echo MISSED ) | $first" | tee -a $res
  done
  git -C $REPO checkout -- .
done
# leave the build directories consistent with the unchanged tree again
$V/bin/build-repo std >/dev/null 2>&1; $V/bin/build-repo ring4 >/dev/null 2>&1
