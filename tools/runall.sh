#!/bin/bash
# run every registered check (quick tier by default) and print one summary line each
tier=${1:-quick}
cd $(dirname $(dirname $(realpath $0)))
for p in $(python3 -c "
import sys; sys.path.insert(0,'bin'); from vprops import PROPS; print(' '.join(sorted(PROPS)))"); do
  out=$(bin/vcheck $p $tier 2>&1); rc=$?
  echo "$p rc=$rc $(echo "$out" | grep -c '^VIOLATION') violations | $(echo "$out" | tail -1)"
done
