#define _GNU_SOURCE
#include <stdio.h>
#include <stdlib.h>
#include <string.h>
#include <signal.h>
#include <ucontext.h>
#include <link.h>
#include <sys/mman.h>
#include <intel-ipsec-mb.h>
static uintptr_t pg_lo, pg_hi; static volatile int armed; 
static struct { uintptr_t addr; uintptr_t rip; int wr; } logv[4096]; static volatile int nlog;
static int cb(struct dl_phdr_info*i,size_t s,void*d){ if(!strstr(i->dlpi_name,"libimbv")) return 0;
  for(int k=0;k<i->dlpi_phnum;k++){ const ElfW(Phdr)*p=&i->dlpi_phdr[k]; if(p->p_type==PT_LOAD&&(p->p_flags&PF_W)){ uintptr_t a=i->dlpi_addr+p->p_vaddr, e=a+p->p_memsz; printf("RW seg %lx-%lx\n",a,e);} 
    if(p->p_type==PT_GNU_RELRO){ uintptr_t a=i->dlpi_addr+p->p_vaddr, e=a+p->p_memsz; printf("RELRO %lx-%lx\n",a,e); pg_lo=(e+4095)&~4095UL; } }
  for(int k=0;k<i->dlpi_phnum;k++){ const ElfW(Phdr)*p=&i->dlpi_phdr[k]; if(p->p_type==PT_LOAD&&(p->p_flags&PF_W)){ pg_hi=(i->dlpi_addr+p->p_vaddr+p->p_memsz+4095)&~4095UL; } }
  return 1; }
static void segv(int sig,siginfo_t*si,void*uc_){ ucontext_t*uc=uc_; uintptr_t a=(uintptr_t)si->si_addr;
  if(a>=pg_lo&&a<pg_hi&&armed){ if(nlog<4096){logv[nlog].addr=a; logv[nlog].rip=uc->uc_mcontext.gregs[REG_RIP]; logv[nlog].wr=(uc->uc_mcontext.gregs[REG_ERR]&2)!=0; nlog++;}
    mprotect((void*)pg_lo,pg_hi-pg_lo,PROT_READ|PROT_WRITE); uc->uc_mcontext.gregs[REG_EFL]|=0x100; return; }
  _exit(77); }
static void trap(int sig,siginfo_t*si,void*uc_){ ucontext_t*uc=uc_; uc->uc_mcontext.gregs[REG_EFL]&=~0x100UL; if(armed) mprotect((void*)pg_lo,pg_hi-pg_lo,PROT_NONE); }
static void arm(void){ armed=1; mprotect((void*)pg_lo,pg_hi-pg_lo,PROT_NONE);} static void disarm(void){ armed=0; mprotect((void*)pg_lo,pg_hi-pg_lo,PROT_READ|PROT_WRITE);} 
int main(void){ dl_iterate_phdr(cb,0); printf("monitor pages %lx-%lx\n",pg_lo,pg_hi);
  struct sigaction sa={0}; sa.sa_sigaction=segv; sa.sa_flags=SA_SIGINFO; sigaction(SIGSEGV,&sa,0); sa.sa_sigaction=trap; sigaction(SIGTRAP,&sa,0);
  IMB_MGR*m=alloc_mb_mgr(0); init_mb_mgr_avx512(m);
  static uint8_t key[16]={1}, iv[16]={2}, src[64], dst[64]; static uint32_t ek[60] __attribute__((aligned(16))),dk[60] __attribute__((aligned(16))); IMB_AES_KEYEXP_128(m,key,ek,dk);
  arm();
  for(int i=0;i<3;i++){ IMB_JOB*job=IMB_GET_NEXT_JOB(m); memset(job,0,sizeof *job); job->cipher_mode=IMB_CIPHER_CBC; job->cipher_direction=IMB_DIR_ENCRYPT; job->chain_order=IMB_ORDER_CIPHER_HASH; job->hash_alg=IMB_AUTH_NULL;
    job->src=src; job->dst=dst; job->enc_keys=ek; job->dec_keys=dk; job->key_len_in_bytes=16; job->iv=iv; job->iv_len_in_bytes=16; job->msg_len_to_cipher_in_bytes= i==2?0:32; IMB_SUBMIT_JOB(m); }
  while(IMB_FLUSH_JOB(m)); int n1=nlog;
  { IMB_JOB*job=IMB_GET_NEXT_JOB(m); job->cipher_mode=IMB_CIPHER_CBC; job->key_len_in_bytes=16; job->hash_alg=IMB_AUTH_NULL; job->cipher_direction=IMB_DIR_ENCRYPT; imb_set_session(m,job);} 
  disarm();
  printf("accesses during 3 submits(1 invalid)+flush: %d ; after set_session: %d\n",n1,nlog);
  for(int i=0;i<nlog;i++) printf("  %s addr=+%lx rip=%lx\n",logv[i].wr?"W":"R",logv[i].addr-pg_lo,logv[i].rip);
  return 0; }
