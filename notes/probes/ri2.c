#include <stdio.h>
#include <string.h>
#include <stdlib.h>
#include <stddef.h>
#include <intel-ipsec-mb.h>
typedef void (*initfn)(IMB_MGR*);
static struct {const char*n; initfn f; uint64_t fl;} V[]={ {"sse_t1",init_mb_mgr_sse,IMB_FLAG_SHANI_OFF},{"sse_t2",init_mb_mgr_sse,IMB_FLAG_GFNI_OFF},{"sse_t3",init_mb_mgr_sse,0},{"avx2_t1",init_mb_mgr_avx2,IMB_FLAG_SHANI_OFF},{"avx2_t2",init_mb_mgr_avx2,0},{"avx512_t1",init_mb_mgr_avx512,IMB_FLAG_SHANI_OFF},{"avx512_t2",init_mb_mgr_avx512,0}};
static uint8_t key[32]={1,2,3}, iv[32]={4}, src[1024], dst[16][1024], tag[16][64], ipad[64] __attribute__((aligned(16))), opad[64] __attribute__((aligned(16))), aad[16];
static uint32_t ek[60] __attribute__((aligned(16))), dk[60] __attribute__((aligned(16))); static uint64_t dks[16]; static uint32_t sk1[4],sk2[4]; static snow3g_key_schedule_t sks;
static void J(IMB_MGR*m,int kind,int n){ IMB_JOB*j=IMB_GET_NEXT_JOB(m); memset(j,0,sizeof *j); j->chain_order=IMB_ORDER_CIPHER_HASH; j->cipher_direction=IMB_DIR_ENCRYPT; j->cipher_mode=IMB_CIPHER_NULL; j->hash_alg=IMB_AUTH_NULL; j->src=src; j->dst=dst[n]; j->iv=iv; j->iv_len_in_bytes=16; j->enc_keys=ek; j->dec_keys=dk; j->key_len_in_bytes=16; j->auth_tag_output=tag[n];
  switch(kind){ case 0: j->cipher_mode=IMB_CIPHER_CBC; j->msg_len_to_cipher_in_bytes=64+16*n; break;
   case 1: j->hash_alg=IMB_AUTH_HMAC_SHA_1; j->msg_len_to_hash_in_bytes=70+n; j->auth_tag_output_len_in_bytes=12; j->u.HMAC._hashed_auth_key_xor_ipad=ipad; j->u.HMAC._hashed_auth_key_xor_opad=opad; break;
   case 2: j->hash_alg=IMB_AUTH_HMAC_SHA_512; j->msg_len_to_hash_in_bytes=170+n; j->auth_tag_output_len_in_bytes=32; j->u.HMAC._hashed_auth_key_xor_ipad=ipad; j->u.HMAC._hashed_auth_key_xor_opad=opad; break;
   case 3: j->cipher_mode=IMB_CIPHER_ZUC_EEA3; j->enc_keys=key; j->msg_len_to_cipher_in_bytes=100+n; break;
   case 4: j->cipher_mode=IMB_CIPHER_DES; j->enc_keys=dks; j->dec_keys=dks; j->key_len_in_bytes=8; j->iv_len_in_bytes=8; j->msg_len_to_cipher_in_bytes=64+8*n; break;
   case 5: j->cipher_mode=IMB_CIPHER_SNOW3G_UEA2_BITLEN; j->enc_keys=&sks; j->msg_len_to_cipher_in_bits=8*(100+n); break;
   case 6: j->hash_alg=IMB_AUTH_AES_CMAC; j->u.CMAC._key_expanded=ek; j->u.CMAC._skey1=sk1; j->u.CMAC._skey2=sk2; j->msg_len_to_hash_in_bytes=50+n; j->auth_tag_output_len_in_bytes=16; break;
   case 7: j->hash_alg=IMB_AUTH_SHA_256; j->msg_len_to_hash_in_bytes=100+n; j->auth_tag_output_len_in_bytes=32; break;
   case 8: j->cipher_mode=IMB_CIPHER_CFB; j->msg_len_to_cipher_in_bytes=64; break; }
  IMB_SUBMIT_JOB(m); }
static __attribute__((noinline)) void doinit(int v,IMB_MGR*m){ V[v].f(m); }
int main(void){ size_t sz=imb_get_mb_mgr_size(); int nv=7; int anomalies=0;
  for(int v=0;v<nv;v++){ IMB_MGR*fresh=NULL;
    for(int u=0;u<nv;u++){ static uint8_t *blk, *img; if(!blk){blk=aligned_alloc(64,sz+64); img=malloc(sz);} IMB_MGR*m=imb_set_pointers_mb_mgr(blk,V[v].fl,1); doinit(v,m); memcpy(img,m,sz); fresh=(IMB_MGR*)img; m=imb_set_pointers_mb_mgr(blk,V[u].fl,1); doinit(u,m); IMB_AES_KEYEXP_128(m,key,ek,dk); IMB_DES_KEYSCHED(m,dks,key); imb_hmac_ipad_opad(m,IMB_AUTH_HMAC_SHA_1,key,16,ipad,opad); IMB_AES_CMAC_SUBKEY_GEN_128(m,ek,sk1,sk2); IMB_SNOW3G_INIT_KEY_SCHED(m,key,&sks);
      for(int k=0;k<9;k++) J(m,k,k); unsigned q=IMB_QUEUE_SIZE(m);
      /* re-init to variant v: flags live in mgr->flags */
      m->flags=V[v].fl; doinit(v,m);
      unsigned q2=IMB_QUEUE_SIZE(m); void*fl=IMB_FLUSH_JOB(m);
      /* compare images outside jobs[] ; map fresh pointers: both blocks have different base, compare OOO regions by offset */
      size_t off_jobs=offsetof(IMB_MGR,jobs), off_ooo=offsetof(IMB_MGR,aes128_ooo); size_t ndiff=0, first=0; 
      const uint8_t*a=(const uint8_t*)m,*b=(const uint8_t*)fresh; 
      for(size_t i=((sizeof(IMB_MGR)+63)&~63UL);i<sz-64;i++) if(a[i]!=b[i]){ if(!ndiff) first=i; ndiff++; }
      if(q2||fl||ndiff||m->earliest_job!=-1||m->next_job!=0||m->used_arch_type!=fresh->used_arch_type){ anomalies++; printf("%s -> %s: parked=%u after: q=%u flush=%p ooo-bytes-differ=%zu first@%zu\n",V[u].n,V[v].n,q,q2,fl,ndiff,first);
        if(ndiff){ void**pp=(void**)((uint8_t*)m+off_ooo); const char*names[]={"aes128","aes192","aes256","docsis128","docsis128crc","docsis256","docsis256crc","des_enc","des_dec","des3_enc","des3_dec","docsis_des_enc","docsis_des_dec","hmac_sha1","hmac_sha224","hmac_sha256","hmac_sha384","hmac_sha512","hmac_md5","xcbc","ccm","cmac","zuc_eea3","zuc_eia3","cbcs","zuc256_eea3","zuc256_eia3","ccm256","cmac256","snow3g_uea2","snow3g_uia2","sha1","sha224","sha256","sha384","sha512","zuc256_eia3_8","zuc256_eia3_16","cfb128","cfb192","cfb256","end"}; for(int t=0;t<41;t++){ size_t lo=(uint8_t*)pp[t]-(uint8_t*)m; size_t hi= t<40? (size_t)((uint8_t*)pp[t+1]-(uint8_t*)m): sz; /* order in struct != order in memory; just test containment by scanning */ size_t c=0; (void)hi; } 
          /* simpler: report which ooo by pointer containment using sorted table */
          size_t lo[41]; for(int t=0;t<41;t++) lo[t]=(uint8_t*)pp[t]-(uint8_t*)m; size_t cnt[41]={0}; for(size_t i=((sizeof(IMB_MGR)+63)&~63UL);i<sz-64;i++) if(a[i]!=b[i]){ int best=-1; for(int t=0;t<41;t++) if(lo[t]<=i && (best<0||lo[t]>lo[best])) best=t; if(best>=0) cnt[best]++; } for(int t=0;t<41;t++) if(cnt[t]) printf("     %s:%zu",names[t],cnt[t]); printf("\n"); } }
      }
    }
  printf("pairs with anomalies: %d of 49\n",anomalies); return 0; }
