#define _GNU_SOURCE
#include <stdio.h>
#include <string.h>
#include <stdlib.h>
#include <signal.h>
#include <setjmp.h>
#include <unistd.h>
#include <sys/wait.h>
#include <intel-ipsec-mb.h>
/* C06-style acceptance/crash matrix: every (cipher, keylen, dir, hash, order). Fields generously filled so that any accepted job has valid pointers. */
static uint8_t key[64]={1,2,3}, iv[32]={4}, aad[64]={5}, src[4096], dst[4096], tag[128], nextiv[16];
static uint32_t ek[64] __attribute__((aligned(64))), dk[64] __attribute__((aligned(64))); static uint64_t dks[16]; static const void*ks3[3]; static struct gcm_key_data gk; static struct gcm_context_data gctx; static struct chacha20_poly1305_context_data cctx; static snow3g_key_schedule_t sks; static kasumi_key_sched_t kks; static uint8_t ipad[64] __attribute__((aligned(64))),opad[64] __attribute__((aligned(64)));
static int cfn(IMB_JOB*j){(void)j;return 0;}
static void fillh(IMB_JOB*j,int h){ switch(h){ case IMB_AUTH_AES_XCBC: j->u.XCBC._k1_expanded=ek; j->u.XCBC._k2=(uint8_t*)dk; j->u.XCBC._k3=(uint8_t*)dk; break; case IMB_AUTH_AES_CMAC: case IMB_AUTH_AES_CMAC_BITLEN: case IMB_AUTH_AES_CMAC_256: j->u.CMAC._key_expanded=ek; j->u.CMAC._skey1=dk; j->u.CMAC._skey2=dk; break;
  case IMB_AUTH_ZUC_EIA3_BITLEN: case IMB_AUTH_ZUC256_EIA3_BITLEN: j->u.ZUC_EIA3._key=key; j->u.ZUC_EIA3._iv=iv; j->u.ZUC_EIA3._iv23=iv; break; case IMB_AUTH_SNOW3G_UIA2_BITLEN: j->u.SNOW3G_UIA2._key=&sks; j->u.SNOW3G_UIA2._iv=iv; break; case IMB_AUTH_KASUMI_UIA1: j->u.KASUMI_UIA1._key=&kks; break;
  case IMB_AUTH_AES_GMAC_128: case IMB_AUTH_AES_GMAC_192: case IMB_AUTH_AES_GMAC_256: j->u.GMAC._key=&gk; j->u.GMAC._iv=iv; j->u.GMAC.iv_len_in_bytes=12; break; case IMB_AUTH_GHASH: j->u.GHASH._key=&gk; j->u.GHASH._init_tag=iv; break; case IMB_AUTH_POLY1305: j->u.POLY1305._key=key; break;
  case IMB_AUTH_AES_GMAC: case IMB_AUTH_GCM_SGL: case IMB_AUTH_SM4_GCM: j->u.GCM.aad=aad; j->u.GCM.aad_len_in_bytes=12; j->u.GCM.ctx=&gctx; break; case IMB_AUTH_AES_CCM: j->u.CCM.aad=aad; j->u.CCM.aad_len_in_bytes=12; break;
  case IMB_AUTH_CHACHA20_POLY1305: case IMB_AUTH_CHACHA20_POLY1305_SGL: j->u.CHACHA20_POLY1305.aad=aad; j->u.CHACHA20_POLY1305.aad_len_in_bytes=12; j->u.CHACHA20_POLY1305.ctx=&cctx; break; case IMB_AUTH_SNOW_V_AEAD: j->u.SNOW_V_AEAD.aad=aad; j->u.SNOW_V_AEAD.aad_len_in_bytes=12; break;
  default: j->u.HMAC._hashed_auth_key_xor_ipad=ipad; j->u.HMAC._hashed_auth_key_xor_opad=opad; } }
static const int taglen[]={0,12,14,16,24,32,12,12,0,16,0,8,16,20,28,32,48,64,4,8,4,4,4,4,16,16,16,16,16,16,16,4,16,16,4,4,4,4,4,4,4,4,4,4,4,4,16,32,32,16};
int main(int argc,char**argv){ int z=argc>1?atoi(argv[1]):1; long acc=0,rej=0,crash=0,hang=0,notdone=0;
  for(int c=0;c<=IMB_CIPHER_NUM;c++) for(int kl=8;kl<=32;kl+=8) for(int dir=1;dir<=2;dir++) for(int h=0;h<=IMB_AUTH_NUM;h++) for(int ord=1;ord<=2;ord++){
    fflush(stdout); pid_t p=fork(); if(!p){ alarm(5); IMB_MGR*m=alloc_mb_mgr(0); if(z) init_mb_mgr_avx512(m); else init_mb_mgr_sse(m);
      IMB_AES_KEYEXP_128(m,key,ek,dk); IMB_DES_KEYSCHED(m,dks,key); ks3[0]=ks3[1]=ks3[2]=dks; IMB_AES128_GCM_PRE(m,key,&gk); IMB_SNOW3G_INIT_KEY_SCHED(m,key,&sks); IMB_KASUMI_INIT_F8_KEY_SCHED(m,key,&kks);
      IMB_JOB*j=IMB_GET_NEXT_JOB(m); memset(j,0,sizeof *j); j->cipher_mode=c; j->key_len_in_bytes=kl; j->cipher_direction=dir; j->hash_alg=h; j->chain_order=ord; j->src=src; j->dst=dst+64; j->iv=iv; j->enc_keys=ek; j->dec_keys=dk; j->auth_tag_output=tag; j->cipher_func=cfn; j->hash_func=cfn; j->cipher_fields.CBCS.next_iv=nextiv;
      int ivl=16; switch(c){case IMB_CIPHER_CNTR: case IMB_CIPHER_GCM: case IMB_CIPHER_GCM_SGL: case IMB_CIPHER_SM4_GCM: case IMB_CIPHER_CHACHA20: case IMB_CIPHER_CHACHA20_POLY1305: case IMB_CIPHER_CHACHA20_POLY1305_SGL: ivl=12; break; case IMB_CIPHER_DES: case IMB_CIPHER_DES3: case IMB_CIPHER_DOCSIS_DES: case IMB_CIPHER_KASUMI_UEA1_BITLEN: ivl=8; break; case IMB_CIPHER_CCM: ivl=13; break; case IMB_CIPHER_ZUC_EEA3: ivl= kl==32?25:16; break;} j->iv_len_in_bytes=ivl;
      if(c==IMB_CIPHER_DES||c==IMB_CIPHER_DOCSIS_DES){j->enc_keys=dks;j->dec_keys=dks;} if(c==IMB_CIPHER_DES3){j->enc_keys=ks3;j->dec_keys=ks3;} if(c==IMB_CIPHER_GCM||c==IMB_CIPHER_GCM_SGL||c==IMB_CIPHER_SM4_GCM){j->enc_keys=&gk;j->dec_keys=&gk;} if(c==IMB_CIPHER_CHACHA20||c==IMB_CIPHER_CHACHA20_POLY1305||c==IMB_CIPHER_CHACHA20_POLY1305_SGL||c==IMB_CIPHER_ZUC_EEA3||c==IMB_CIPHER_SNOW_V||c==IMB_CIPHER_SNOW_V_AEAD){j->enc_keys=key;j->dec_keys=key;} if(c==IMB_CIPHER_SNOW3G_UEA2_BITLEN){j->enc_keys=&sks;} if(c==IMB_CIPHER_KASUMI_UEA1_BITLEN){j->enc_keys=&kks;}
      j->msg_len_to_cipher_in_bytes=96; if(c==IMB_CIPHER_SNOW3G_UEA2_BITLEN||c==IMB_CIPHER_KASUMI_UEA1_BITLEN||c==IMB_CIPHER_CNTR_BITLEN) j->msg_len_to_cipher_in_bits=96*8; j->msg_len_to_hash_in_bytes=96; if(h==IMB_AUTH_ZUC_EIA3_BITLEN||h==IMB_AUTH_ZUC256_EIA3_BITLEN||h==IMB_AUTH_SNOW3G_UIA2_BITLEN||h==IMB_AUTH_AES_CMAC_BITLEN) j->msg_len_to_hash_in_bits=96*8;
      if(c==IMB_CIPHER_PON_AES_CNTR){ j->dst=(uint8_t*)src+8; j->cipher_start_src_offset_in_bytes=8; j->msg_len_to_cipher_in_bytes=88; memset(src,0,8); }
      if(h==IMB_AUTH_DOCSIS_CRC32){ j->dst=(uint8_t*)src+12; j->cipher_start_src_offset_in_bytes=12; j->msg_len_to_cipher_in_bytes=80; j->msg_len_to_hash_in_bytes=88; }
      j->auth_tag_output_len_in_bytes= (h>0&&h<50)?taglen[h]:0; fillh(j,h); j->sgl_state=IMB_SGL_ALL; static struct IMB_SGL_IOV seg={src,dst,32}; if(c==IMB_CIPHER_GCM_SGL||c==IMB_CIPHER_CHACHA20_POLY1305_SGL){ j->sgl_io_segs=&seg; j->num_sgl_io_segs=1; }
      IMB_JOB*r=IMB_SUBMIT_JOB(m); int e=imb_get_errno(m); if(!r&&!e) r=IMB_FLUSH_JOB(m); if(!r) _exit(3); _exit(r->status==IMB_STATUS_COMPLETED?0: r->status==IMB_STATUS_INVALID_ARGS?1:2); }
    int st; waitpid(p,&st,0); if(WIFSIGNALED(st)){ if(WTERMSIG(st)==SIGALRM) hang++; else crash++; printf("CRASH sig=%d cipher=%d keylen=%d dir=%d hash=%d order=%d\n",WTERMSIG(st),c,kl,dir,h,ord);} else { int x=WEXITSTATUS(st); if(x==0) acc++; else if(x==1) rej++; else { notdone++; printf("ODD exit=%d cipher=%d keylen=%d dir=%d hash=%d order=%d\n",x,c,kl,dir,h,ord);} } }
  printf("accepted+completed=%ld rejected=%ld crash=%ld hang=%ld odd=%ld\n",acc,rej,crash,hang,notdone); return 0; }
