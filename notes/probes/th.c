#include <stdio.h>
#include <stdlib.h>
#include <string.h>
#include <pthread.h>
#include <intel-ipsec-mb.h>
static void *worker(void*arg){ long id=(long)arg; IMB_MGR*m=alloc_mb_mgr(0); if(id&1) init_mb_mgr_avx512(m); else init_mb_mgr_sse(m);
  uint8_t key[16]={1+id}, iv[16]={2}; uint8_t src[64]={0}, dst[64]; uint32_t ek[60] __attribute__((aligned(16))),dk[60] __attribute__((aligned(16))); IMB_AES_KEYEXP_128(m,key,ek,dk);
  unsigned long acc=0;
  for(int it=0;it<2000;it++){ IMB_JOB*job=IMB_GET_NEXT_JOB(m); memset(job,0,sizeof *job); job->cipher_mode=IMB_CIPHER_CBC; job->cipher_direction=IMB_DIR_ENCRYPT; job->chain_order=IMB_ORDER_CIPHER_HASH; job->hash_alg=IMB_AUTH_NULL;
    job->src=src; job->dst=dst; job->enc_keys=ek; job->dec_keys=dk; job->key_len_in_bytes=16; job->iv=iv; job->iv_len_in_bytes=16; job->msg_len_to_cipher_in_bytes=(it%5==0)?0:32; imb_set_session(m,job);
    IMB_JOB*r=IMB_SUBMIT_JOB(m); if(!r) r=IMB_FLUSH_JOB(m); acc+=dst[0]; }
  free_mb_mgr(m); return (void*)acc; }
int main(void){ pthread_t t[2]; for(long i=0;i<2;i++) pthread_create(&t[i],0,worker,(void*)i); for(int i=0;i<2;i++) pthread_join(t[i],0); puts("done"); return 0; }
