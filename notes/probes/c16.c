#define _GNU_SOURCE
#include <stdio.h>
#include <string.h>
#include <stdlib.h>
#include <signal.h>
#include <setjmp.h>
#include <sys/mman.h>
#include <intel-ipsec-mb.h>
typedef void (*initfn)(IMB_MGR*);
static struct {const char*n; initfn f; uint64_t fl;} V[]={ {"sse_t1",init_mb_mgr_sse,IMB_FLAG_SHANI_OFF},{"sse_t2",init_mb_mgr_sse,IMB_FLAG_GFNI_OFF},{"sse_t3",init_mb_mgr_sse,0},{"avx2_t1",init_mb_mgr_avx2,IMB_FLAG_SHANI_OFF},{"avx2_t2",init_mb_mgr_avx2,0},{"avx512_t1",init_mb_mgr_avx512,IMB_FLAG_SHANI_OFF},{"avx512_t2",init_mb_mgr_avx512,0}};
static sigjmp_buf jb; static volatile uintptr_t fault_addr;
static void segv(int s,siginfo_t*si,void*u){ fault_addr=(uintptr_t)si->si_addr; siglongjmp(jb,1);} 
/* guarded region: [guard][N pages][guard] */
#define NP 20
static uint8_t* mkregion(void){ uint8_t*p=mmap(0,(NP+2)*4096,PROT_NONE,MAP_PRIVATE|MAP_ANONYMOUS,-1,0); mprotect(p+4096,NP*4096,PROT_READ|PROT_WRITE); return p+4096; }
static uint8_t *R_src,*R_dst,*R_iv,*R_tag,*R_aad;
static uint8_t key[32]={1,2,3,4,5,6,7,8,9}; 
static uint32_t ek[60] __attribute__((aligned(16))), dk[60] __attribute__((aligned(16))); static uint64_t dks[16]; static const void*ks3[3]; static uint32_t sk1[4],sk2[4],k1e[44] __attribute__((aligned(16))); static uint8_t k2[16] __attribute__((aligned(16))),k3[16] __attribute__((aligned(16)));
static uint8_t ipad[64] __attribute__((aligned(16))), opad[64] __attribute__((aligned(16))); static struct gcm_key_data gk; static snow3g_key_schedule_t sks; static kasumi_key_sched_t kks8,kks9;
enum {A_CBC,A_CTR,A_CTR16,A_ECB,A_CFB,A_DOCSIS,A_DES,A_DES3,A_DOCSISDES,A_GCM,A_CCM,A_CHACHA,A_CHAPOLY,A_ZUC,A_ZUC256,A_SNOW3G,A_KASUMI,A_SNOWV,A_SM4CTR,A_HSHA1,A_HSHA256,A_HSHA512,A_HMD5,A_XCBC,A_CMAC,A_SHA1,A_SHA512,A_POLY,A_CRC32,A_ZUCEIA,A_S3UIA,A_KF9,A_GMAC,A_SM3,A_N};
static const char*AN[]={"cbc","ctr12","ctr16","ecb","cfb","docsis","des","des3","docsis-des","gcm","ccm","chacha","chacha-poly","zuc","zuc256","snow3g","kasumi","snow-v","sm4-ctr","hmac-sha1","hmac-sha256","hmac-sha512","hmac-md5","xcbc","cmac","sha1","sha512","poly1305","crc32","zuc-eia3","snow3g-uia2","kasumi-f9","gmac","sm3"};
static int valid_len(int a,int len){ switch(a){case A_CBC:case A_ECB:case A_CFB: return len%16==0; case A_DES:case A_DES3: return len%8==0; case A_KF9: return len>=9; default: return 1;} }
static int build(IMB_MGR*m,IMB_JOB*j,int a,int dir,int len,int place){ /* place: 0 src end-flush, 1 dst end-flush, 2 src start-flush, 3 tag/iv/aad end-flush */
  memset(j,0,sizeof *j); j->chain_order= dir?IMB_ORDER_CIPHER_HASH:IMB_ORDER_HASH_CIPHER; j->cipher_direction=dir?IMB_DIR_ENCRYPT:IMB_DIR_DECRYPT; j->cipher_mode=IMB_CIPHER_NULL; j->hash_alg=IMB_AUTH_NULL;
  uint8_t*src= place==0? R_src+NP*4096-len : place==2? R_src : R_src+4096+3; uint8_t*dst= place==1? R_dst+NP*4096-len : R_dst+4096+5; 
  int ivl=16, tagl=16; j->src=src; j->dst=dst; j->enc_keys=ek; j->dec_keys=dk; j->key_len_in_bytes=16; j->msg_len_to_cipher_in_bytes=len; j->msg_len_to_hash_in_bytes=len;
  int hash=0;
  switch(a){
  case A_CBC: j->cipher_mode=IMB_CIPHER_CBC; break; case A_CTR: j->cipher_mode=IMB_CIPHER_CNTR; ivl=12; break; case A_CTR16: j->cipher_mode=IMB_CIPHER_CNTR; break; case A_ECB: j->cipher_mode=IMB_CIPHER_ECB; break; case A_CFB: j->cipher_mode=IMB_CIPHER_CFB; j->dec_keys=ek; break;
  case A_DOCSIS: j->cipher_mode=IMB_CIPHER_DOCSIS_SEC_BPI; break; case A_DES: j->cipher_mode=IMB_CIPHER_DES; j->enc_keys=dks; j->dec_keys=dks; j->key_len_in_bytes=8; ivl=8; break;
  case A_DES3: j->cipher_mode=IMB_CIPHER_DES3; j->enc_keys=ks3; j->dec_keys=ks3; j->key_len_in_bytes=24; ivl=8; break; case A_DOCSISDES: j->cipher_mode=IMB_CIPHER_DOCSIS_DES; j->enc_keys=dks; j->dec_keys=dks; j->key_len_in_bytes=8; ivl=8; break;
  case A_GCM: j->cipher_mode=IMB_CIPHER_GCM; j->hash_alg=IMB_AUTH_AES_GMAC; j->enc_keys=&gk; j->dec_keys=&gk; ivl=12; j->u.GCM.aad=R_aad+NP*4096-13; j->u.GCM.aad_len_in_bytes=13; hash=1; break;
  case A_CCM: j->cipher_mode=IMB_CIPHER_CCM; j->hash_alg=IMB_AUTH_AES_CCM; ivl=13; tagl=8; j->u.CCM.aad=R_aad+NP*4096-13; j->u.CCM.aad_len_in_bytes=13; hash=1; break;
  case A_CHACHA: j->cipher_mode=IMB_CIPHER_CHACHA20; j->enc_keys=key; j->dec_keys=key; j->key_len_in_bytes=32; ivl=12; break;
  case A_CHAPOLY: j->cipher_mode=IMB_CIPHER_CHACHA20_POLY1305; j->hash_alg=IMB_AUTH_CHACHA20_POLY1305; j->enc_keys=key; j->dec_keys=key; j->key_len_in_bytes=32; ivl=12; j->u.CHACHA20_POLY1305.aad=R_aad+NP*4096-13; j->u.CHACHA20_POLY1305.aad_len_in_bytes=13; hash=1; break;
  case A_ZUC: j->cipher_mode=IMB_CIPHER_ZUC_EEA3; j->enc_keys=key; break; case A_ZUC256: j->cipher_mode=IMB_CIPHER_ZUC_EEA3; j->enc_keys=key; j->key_len_in_bytes=32; ivl=25; break;
  case A_SNOW3G: j->cipher_mode=IMB_CIPHER_SNOW3G_UEA2_BITLEN; j->enc_keys=&sks; j->msg_len_to_cipher_in_bits=len*8; break; case A_KASUMI: j->cipher_mode=IMB_CIPHER_KASUMI_UEA1_BITLEN; j->enc_keys=&kks8; ivl=8; j->msg_len_to_cipher_in_bits=len*8; break;
  case A_SNOWV: j->cipher_mode=IMB_CIPHER_SNOW_V; j->enc_keys=key; j->key_len_in_bytes=32; break; case A_SM4CTR: j->cipher_mode=IMB_CIPHER_SM4_CNTR; break;
  case A_HSHA1: j->hash_alg=IMB_AUTH_HMAC_SHA_1; tagl=12; goto hmac; case A_HSHA256: j->hash_alg=IMB_AUTH_HMAC_SHA_256; tagl=16; goto hmac; case A_HSHA512: j->hash_alg=IMB_AUTH_HMAC_SHA_512; tagl=32; goto hmac; case A_HMD5: j->hash_alg=IMB_AUTH_MD5; tagl=12;
  hmac: j->u.HMAC._hashed_auth_key_xor_ipad=ipad; j->u.HMAC._hashed_auth_key_xor_opad=opad; hash=1; break;
  case A_XCBC: j->hash_alg=IMB_AUTH_AES_XCBC; j->u.XCBC._k1_expanded=k1e; j->u.XCBC._k2=k2; j->u.XCBC._k3=k3; tagl=12; hash=1; break;
  case A_CMAC: j->hash_alg=IMB_AUTH_AES_CMAC; j->u.CMAC._key_expanded=ek; j->u.CMAC._skey1=sk1; j->u.CMAC._skey2=sk2; tagl=16; hash=1; break;
  case A_SHA1: j->hash_alg=IMB_AUTH_SHA_1; tagl=20; hash=1; break; case A_SHA512: j->hash_alg=IMB_AUTH_SHA_512; tagl=64; hash=1; break;
  case A_POLY: j->hash_alg=IMB_AUTH_POLY1305; j->u.POLY1305._key=key; hash=1; break; case A_CRC32: j->hash_alg=IMB_AUTH_CRC32_ETHERNET_FCS; tagl=4; hash=1; break;
  case A_ZUCEIA: j->hash_alg=IMB_AUTH_ZUC_EIA3_BITLEN; j->u.ZUC_EIA3._key=key; j->u.ZUC_EIA3._iv=R_iv+NP*4096-16; j->msg_len_to_hash_in_bits=len*8; tagl=4; hash=1; break;
  case A_S3UIA: j->hash_alg=IMB_AUTH_SNOW3G_UIA2_BITLEN; j->u.SNOW3G_UIA2._key=&sks; j->u.SNOW3G_UIA2._iv=R_iv+NP*4096-16; j->msg_len_to_hash_in_bits=len*8; tagl=4; hash=1; break;
  case A_KF9: j->hash_alg=IMB_AUTH_KASUMI_UIA1; j->u.KASUMI_UIA1._key=&kks9; tagl=4; hash=1; break;
  case A_GMAC: j->hash_alg=IMB_AUTH_AES_GMAC_128; j->u.GMAC._key=&gk; j->u.GMAC._iv=R_iv+NP*4096-12; j->u.GMAC.iv_len_in_bytes=12; hash=1; break;
  case A_SM3: j->hash_alg=IMB_AUTH_SM3; tagl=32; hash=1; break; }
  j->iv=R_iv+NP*4096-ivl; j->iv_len_in_bytes=ivl; if(hash){ j->auth_tag_output=R_tag+NP*4096-tagl; j->auth_tag_output_len_in_bytes=tagl; }
  return 0; }

#include <unistd.h>
#include <sys/wait.h>
#define BASE ((uint8_t*)0x600000000000ULL)
#define ASZ (64u<<20)
struct shm { uint8_t mgr[512*1024] __attribute__((aligned(64))); uint8_t keys[64*1024] __attribute__((aligned(64))); uint8_t exp[8][2048]; uint8_t exptag[8][64]; int n, a, dir, lens[8], v; uint64_t flags; uint8_t regions[5][(NP+2)*4096] __attribute__((aligned(4096))); };
static struct shm *S;
/* key objects relocated into S->keys at fixed offsets */
#define KO(off,type) ((type*)(S->keys+(off)))
static void relocate_keys(void){ memcpy(S->keys+0,ek,sizeof ek); memcpy(S->keys+1024,dk,sizeof dk); memcpy(S->keys+2048,dks,sizeof dks); memcpy(S->keys+3072,sk1,16); memcpy(S->keys+3200,sk2,16); memcpy(S->keys+3328,k1e,sizeof k1e); memcpy(S->keys+3840,k2,16); memcpy(S->keys+3968,k3,16); memcpy(S->keys+4096,ipad,64); memcpy(S->keys+4224,opad,64); memcpy(S->keys+8192,&gk,sizeof gk); memcpy(S->keys+16384,&sks,sizeof sks); memcpy(S->keys+16640,&kks8,sizeof kks8); memcpy(S->keys+17408,&kks9,sizeof kks9); memcpy(S->keys+18432,key,32); { const void**p=(const void**)(S->keys+18688); p[0]=p[1]=p[2]=S->keys+2048; } }
static void patch(IMB_JOB*j){ /* replace pointers to process-local key objects by arena copies */
  #define RP(field) do{ const void*q=(const void*)j->field; if(q==(void*)ek) j->field=(void*)(S->keys+0); else if(q==(void*)dk) j->field=(void*)(S->keys+1024); else if(q==(void*)dks) j->field=(void*)(S->keys+2048); else if(q==(void*)ks3) j->field=(void*)(S->keys+18688); else if(q==(void*)&gk) j->field=(void*)(S->keys+8192); else if(q==(void*)key) j->field=(void*)(S->keys+18432); else if(q==(void*)&sks) j->field=(void*)(S->keys+16384); else if(q==(void*)&kks8) j->field=(void*)(S->keys+16640); else if(q==(void*)&kks9) j->field=(void*)(S->keys+17408); else if(q==(void*)sk1) j->field=(void*)(S->keys+3072); else if(q==(void*)sk2) j->field=(void*)(S->keys+3200); else if(q==(void*)k1e) j->field=(void*)(S->keys+3328); else if(q==(void*)k2) j->field=(void*)(S->keys+3840); else if(q==(void*)k3) j->field=(void*)(S->keys+3968); else if(q==(void*)ipad) j->field=(void*)(S->keys+4096); else if(q==(void*)opad) j->field=(void*)(S->keys+4224); }while(0)
  RP(enc_keys); RP(dec_keys); void**u=(void**)&j->u; for(int k=0;k<3;k++){ const void*q=u[k]; if(q==(void*)ek) u[k]=S->keys+0; else if(q==(void*)dk) u[k]=S->keys+1024; else if(q==(void*)&gk) u[k]=S->keys+8192; else if(q==(void*)key) u[k]=S->keys+18432; else if(q==(void*)&sks) u[k]=S->keys+16384; else if(q==(void*)&kks9) u[k]=S->keys+17408; else if(q==(void*)sk1) u[k]=S->keys+3072; else if(q==(void*)sk2) u[k]=S->keys+3200; else if(q==(void*)k1e) u[k]=S->keys+3328; else if(q==(void*)k2) u[k]=S->keys+3840; else if(q==(void*)k3) u[k]=S->keys+3968; else if(q==(void*)ipad) u[k]=S->keys+4096; else if(q==(void*)opad) u[k]=S->keys+4224; } }
static void setregions(void){ R_src=S->regions[0]+4096; R_dst=S->regions[1]+4096; R_iv=S->regions[2]+4096; R_tag=S->regions[3]+4096; R_aad=S->regions[4]+4096; }
static uint8_t* jdst(int i){ return R_dst+4096+i*2048; } static uint8_t* jtag(int i){ return R_tag+4096+i*64; }
static void mkjob(IMB_MGR*m,IMB_JOB*j,int a,int dir,int i,int len){ build(m,j,a,dir,len,3); j->src=R_src+4096+i*5; j->dst=jdst(i); if(j->auth_tag_output) j->auth_tag_output=jtag(i); j->user_data=(void*)(long)i; patch(j); }
int main(int argc,char**argv){
  if(argc>1){ /* secondary */ int fd=atoi(argv[1]); S=mmap(BASE,ASZ,PROT_READ|PROT_WRITE,MAP_SHARED|MAP_FIXED,fd,0); setregions(); IMB_MGR*m=imb_set_pointers_mb_mgr(S->mgr,S->flags,0); int n=0,bad=0; IMB_JOB*j; while((j=IMB_FLUSH_JOB(m))){ int id=(int)(long)j->user_data; if(id!=n||j->status!=IMB_STATUS_COMPLETED) bad|=1; n++; }
    if(n!=S->n) bad|=2; for(int i=0;i<S->n;i++){ if(S->a<A_HSHA1 && memcmp(jdst(i),S->exp[i],S->lens[i])) bad|=4; if(memcmp(jtag(i),S->exptag[i],64)) bad|=8; }
    /* usability: one more job */ IMB_JOB*k=IMB_GET_NEXT_JOB(m); memcpy(jdst(7),jdst(0),0); /* reuse job 0 params */ 
    return bad; }
  int fd=memfd_create("imb",0); ftruncate(fd,ASZ); S=mmap(BASE,ASZ,PROT_READ|PROT_WRITE,MAP_SHARED|MAP_FIXED,fd,0); if(S==MAP_FAILED){perror("mmap");return 1;} setregions(); for(int i=0;i<NP*4096;i++){ R_src[i]=i*31+7; R_iv[i]=i*5+1; R_aad[i]=i*3+2; }
  int algos[]={A_CBC,A_DOCSIS,A_DES,A_DES3,A_DOCSISDES,A_CCM,A_ZUC,A_ZUC256,A_SNOW3G,A_CFB,A_HSHA1,A_HSHA256,A_HSHA512,A_HMD5,A_XCBC,A_CMAC,A_SHA1,A_SHA512,A_ZUCEIA,A_S3UIA}; int na=sizeof algos/sizeof algos[0]; long runs=0,fails=0;
  for(int v=0;v<7;v++) for(int ai=0;ai<na;ai++){ int a=algos[ai]; int dir=1; int n=3;
      IMB_MGR*m=imb_set_pointers_mb_mgr(S->mgr,V[v].fl,1); V[v].f(m);
      IMB_AES_KEYEXP_128(m,key,ek,dk); IMB_DES_KEYSCHED(m,dks,key); ks3[0]=ks3[1]=ks3[2]=dks; IMB_AES_CMAC_SUBKEY_GEN_128(m,ek,sk1,sk2); IMB_AES_XCBC_KEYEXP(m,key,k1e,k2,k3); IMB_AES128_GCM_PRE(m,key,&gk); IMB_SNOW3G_INIT_KEY_SCHED(m,key,&sks); IMB_KASUMI_INIT_F8_KEY_SCHED(m,key,&kks8); IMB_KASUMI_INIT_F9_KEY_SCHED(m,key,&kks9);
      imb_hmac_ipad_opad(m, a==A_HSHA256?IMB_AUTH_HMAC_SHA_256: a==A_HSHA512?IMB_AUTH_HMAC_SHA_512: a==A_HMD5?IMB_AUTH_MD5:IMB_AUTH_HMAC_SHA_1,key,16,ipad,opad); relocate_keys();
      int blk=(a==A_CBC||a==A_CFB)?16:(a==A_DES||a==A_DES3)?8:1; S->n=n; S->a=a; S->dir=dir; S->v=v; S->flags=V[v].fl;
      /* expected (solo) */ for(int i=0;i<n;i++){ int len= blk*((64+i*24)/blk); S->lens[i]=len; memset(jdst(i),0,2048); memset(jtag(i),0,64); IMB_JOB*j=IMB_GET_NEXT_JOB(m); mkjob(m,j,a,dir,i,len); IMB_JOB*r=IMB_SUBMIT_JOB(m); if(!r) r=IMB_FLUSH_JOB(m); if(!r||r->status!=IMB_STATUS_COMPLETED) printf("solo fail %s %s\n",V[v].n,AN[a]); memcpy(S->exp[i],jdst(i),len); memcpy(S->exptag[i],jtag(i),64); }
      /* AVX512 DES lane swap (F11) would poison: use identical-data check only for those -> skip */
      if((v>=5)&&(a==A_DES||a==A_DES3||a==A_DOCSISDES)) continue;
      for(int i=0;i<n;i++){ memset(jdst(i),0,2048); memset(jtag(i),0,64); }
      int early=0; for(int i=0;i<n;i++){ IMB_JOB*j=IMB_GET_NEXT_JOB(m); mkjob(m,j,a,dir,i,S->lens[i]); if(IMB_SUBMIT_JOB(m)) early++; }
      if(early){ /* lanes <= n: completed some; adjust expectations: secondary expects ids from 'early' on; simplify: skip */ while(IMB_FLUSH_JOB(m)); continue; }
      char b[16]; snprintf(b,sizeof b,"%d",fd); fflush(stdout); pid_t p=fork(); if(!p){ execl("/proc/self/exe","c16",b,(char*)0); _exit(99);} int st; waitpid(p,&st,0); runs++; int rc= WIFSIGNALED(st)? 1000+WTERMSIG(st): WEXITSTATUS(st); if(rc){ fails++; printf("REATTACH FAIL %s %s rc=%d\n",V[v].n,AN[a],rc); } }
  printf("exec re-attach runs=%ld failures=%ld\n",runs,fails); return 0; }
