#define _GNU_SOURCE
#include <stdio.h>
#include <string.h>
#include <stdlib.h>
#include <signal.h>
#include <setjmp.h>
#include <sys/mman.h>
#include <intel-ipsec-mb.h>
typedef void (*initfn)(IMB_MGR*);
static struct {const char*n; initfn f; uint64_t fl;} V[]={ {"sse_t1",init_mb_mgr_sse,IMB_FLAG_SHANI_OFF},{"sse_t2",init_mb_mgr_sse,IMB_FLAG_GFNI_OFF},{"sse_t3",init_mb_mgr_sse,0},{"avx2_t1",init_mb_mgr_avx2,IMB_FLAG_SHANI_OFF},{"avx2_t2",init_mb_mgr_avx2,0},{"avx512_t1",init_mb_mgr_avx512,IMB_FLAG_SHANI_OFF},{"avx512_t2",init_mb_mgr_avx512,0}};
static sigjmp_buf jb; static volatile uintptr_t fault_addr;
static void segv(int s,siginfo_t*si,void*u){ fault_addr=(uintptr_t)si->si_addr; siglongjmp(jb,1);} 
/* guarded region: [guard][N pages][guard] */
#define NP 20
static uint8_t* mkregion(void){ uint8_t*p=mmap(0,(NP+2)*4096,PROT_NONE,MAP_PRIVATE|MAP_ANONYMOUS,-1,0); mprotect(p+4096,NP*4096,PROT_READ|PROT_WRITE); return p+4096; }
static uint8_t *R_src,*R_dst,*R_iv,*R_tag,*R_aad;
static uint8_t key[32]={1,2,3,4,5,6,7,8,9}; 
static uint32_t ek[60] __attribute__((aligned(16))), dk[60] __attribute__((aligned(16))); static uint64_t dks[16]; static const void*ks3[3]; static uint32_t sk1[4],sk2[4],k1e[44] __attribute__((aligned(16))); static uint8_t k2[16] __attribute__((aligned(16))),k3[16] __attribute__((aligned(16)));
static uint8_t ipad[64] __attribute__((aligned(16))), opad[64] __attribute__((aligned(16))); static struct gcm_key_data gk; static snow3g_key_schedule_t sks; static kasumi_key_sched_t kks8,kks9;
enum {A_CBC,A_CTR,A_CTR16,A_ECB,A_CFB,A_DOCSIS,A_DES,A_DES3,A_DOCSISDES,A_GCM,A_CCM,A_CHACHA,A_CHAPOLY,A_ZUC,A_ZUC256,A_SNOW3G,A_KASUMI,A_SNOWV,A_SM4CTR,A_HSHA1,A_HSHA256,A_HSHA512,A_HMD5,A_XCBC,A_CMAC,A_SHA1,A_SHA512,A_POLY,A_CRC32,A_ZUCEIA,A_S3UIA,A_KF9,A_GMAC,A_SM3,A_N};
static const char*AN[]={"cbc","ctr12","ctr16","ecb","cfb","docsis","des","des3","docsis-des","gcm","ccm","chacha","chacha-poly","zuc","zuc256","snow3g","kasumi","snow-v","sm4-ctr","hmac-sha1","hmac-sha256","hmac-sha512","hmac-md5","xcbc","cmac","sha1","sha512","poly1305","crc32","zuc-eia3","snow3g-uia2","kasumi-f9","gmac","sm3"};
static int valid_len(int a,int len){ switch(a){case A_CBC:case A_ECB:case A_CFB: return len%16==0; case A_DES:case A_DES3: return len%8==0; case A_KF9: return len>=9; default: return 1;} }
static int build(IMB_MGR*m,IMB_JOB*j,int a,int dir,int len,int place){ /* place: 0 src end-flush, 1 dst end-flush, 2 src start-flush, 3 tag/iv/aad end-flush */
  memset(j,0,sizeof *j); j->chain_order= dir?IMB_ORDER_CIPHER_HASH:IMB_ORDER_HASH_CIPHER; j->cipher_direction=dir?IMB_DIR_ENCRYPT:IMB_DIR_DECRYPT; j->cipher_mode=IMB_CIPHER_NULL; j->hash_alg=IMB_AUTH_NULL;
  uint8_t*src= place==0? R_src+NP*4096-len : place==2? R_src : R_src+4096+3; uint8_t*dst= place==1? R_dst+NP*4096-len : R_dst+4096+5; 
  int ivl=16, tagl=16; j->src=src; j->dst=dst; j->enc_keys=ek; j->dec_keys=dk; j->key_len_in_bytes=16; j->msg_len_to_cipher_in_bytes=len; j->msg_len_to_hash_in_bytes=len;
  int hash=0;
  switch(a){
  case A_CBC: j->cipher_mode=IMB_CIPHER_CBC; break; case A_CTR: j->cipher_mode=IMB_CIPHER_CNTR; ivl=12; break; case A_CTR16: j->cipher_mode=IMB_CIPHER_CNTR; break; case A_ECB: j->cipher_mode=IMB_CIPHER_ECB; break; case A_CFB: j->cipher_mode=IMB_CIPHER_CFB; j->dec_keys=ek; break;
  case A_DOCSIS: j->cipher_mode=IMB_CIPHER_DOCSIS_SEC_BPI; break; case A_DES: j->cipher_mode=IMB_CIPHER_DES; j->enc_keys=dks; j->dec_keys=dks; j->key_len_in_bytes=8; ivl=8; break;
  case A_DES3: j->cipher_mode=IMB_CIPHER_DES3; j->enc_keys=ks3; j->dec_keys=ks3; j->key_len_in_bytes=24; ivl=8; break; case A_DOCSISDES: j->cipher_mode=IMB_CIPHER_DOCSIS_DES; j->enc_keys=dks; j->dec_keys=dks; j->key_len_in_bytes=8; ivl=8; break;
  case A_GCM: j->cipher_mode=IMB_CIPHER_GCM; j->hash_alg=IMB_AUTH_AES_GMAC; j->enc_keys=&gk; j->dec_keys=&gk; ivl=12; j->u.GCM.aad=R_aad+NP*4096-13; j->u.GCM.aad_len_in_bytes=13; hash=1; break;
  case A_CCM: j->cipher_mode=IMB_CIPHER_CCM; j->hash_alg=IMB_AUTH_AES_CCM; ivl=13; tagl=8; j->u.CCM.aad=R_aad+NP*4096-13; j->u.CCM.aad_len_in_bytes=13; hash=1; break;
  case A_CHACHA: j->cipher_mode=IMB_CIPHER_CHACHA20; j->enc_keys=key; j->dec_keys=key; j->key_len_in_bytes=32; ivl=12; break;
  case A_CHAPOLY: j->cipher_mode=IMB_CIPHER_CHACHA20_POLY1305; j->hash_alg=IMB_AUTH_CHACHA20_POLY1305; j->enc_keys=key; j->dec_keys=key; j->key_len_in_bytes=32; ivl=12; j->u.CHACHA20_POLY1305.aad=R_aad+NP*4096-13; j->u.CHACHA20_POLY1305.aad_len_in_bytes=13; hash=1; break;
  case A_ZUC: j->cipher_mode=IMB_CIPHER_ZUC_EEA3; j->enc_keys=key; break; case A_ZUC256: j->cipher_mode=IMB_CIPHER_ZUC_EEA3; j->enc_keys=key; j->key_len_in_bytes=32; ivl=25; break;
  case A_SNOW3G: j->cipher_mode=IMB_CIPHER_SNOW3G_UEA2_BITLEN; j->enc_keys=&sks; j->msg_len_to_cipher_in_bits=len*8; break; case A_KASUMI: j->cipher_mode=IMB_CIPHER_KASUMI_UEA1_BITLEN; j->enc_keys=&kks8; ivl=8; j->msg_len_to_cipher_in_bits=len*8; break;
  case A_SNOWV: j->cipher_mode=IMB_CIPHER_SNOW_V; j->enc_keys=key; j->key_len_in_bytes=32; break; case A_SM4CTR: j->cipher_mode=IMB_CIPHER_SM4_CNTR; break;
  case A_HSHA1: j->hash_alg=IMB_AUTH_HMAC_SHA_1; tagl=12; goto hmac; case A_HSHA256: j->hash_alg=IMB_AUTH_HMAC_SHA_256; tagl=16; goto hmac; case A_HSHA512: j->hash_alg=IMB_AUTH_HMAC_SHA_512; tagl=32; goto hmac; case A_HMD5: j->hash_alg=IMB_AUTH_MD5; tagl=12;
  hmac: j->u.HMAC._hashed_auth_key_xor_ipad=ipad; j->u.HMAC._hashed_auth_key_xor_opad=opad; hash=1; break;
  case A_XCBC: j->hash_alg=IMB_AUTH_AES_XCBC; j->u.XCBC._k1_expanded=k1e; j->u.XCBC._k2=k2; j->u.XCBC._k3=k3; tagl=12; hash=1; break;
  case A_CMAC: j->hash_alg=IMB_AUTH_AES_CMAC; j->u.CMAC._key_expanded=ek; j->u.CMAC._skey1=sk1; j->u.CMAC._skey2=sk2; tagl=16; hash=1; break;
  case A_SHA1: j->hash_alg=IMB_AUTH_SHA_1; tagl=20; hash=1; break; case A_SHA512: j->hash_alg=IMB_AUTH_SHA_512; tagl=64; hash=1; break;
  case A_POLY: j->hash_alg=IMB_AUTH_POLY1305; j->u.POLY1305._key=key; hash=1; break; case A_CRC32: j->hash_alg=IMB_AUTH_CRC32_ETHERNET_FCS; tagl=4; hash=1; break;
  case A_ZUCEIA: j->hash_alg=IMB_AUTH_ZUC_EIA3_BITLEN; j->u.ZUC_EIA3._key=key; j->u.ZUC_EIA3._iv=R_iv+NP*4096-16; j->msg_len_to_hash_in_bits=len*8; tagl=4; hash=1; break;
  case A_S3UIA: j->hash_alg=IMB_AUTH_SNOW3G_UIA2_BITLEN; j->u.SNOW3G_UIA2._key=&sks; j->u.SNOW3G_UIA2._iv=R_iv+NP*4096-16; j->msg_len_to_hash_in_bits=len*8; tagl=4; hash=1; break;
  case A_KF9: j->hash_alg=IMB_AUTH_KASUMI_UIA1; j->u.KASUMI_UIA1._key=&kks9; tagl=4; hash=1; break;
  case A_GMAC: j->hash_alg=IMB_AUTH_AES_GMAC_128; j->u.GMAC._key=&gk; j->u.GMAC._iv=R_iv+NP*4096-12; j->u.GMAC.iv_len_in_bytes=12; hash=1; break;
  case A_SM3: j->hash_alg=IMB_AUTH_SM3; tagl=32; hash=1; break; }
  j->iv=R_iv+NP*4096-ivl; j->iv_len_in_bytes=ivl; if(hash){ j->auth_tag_output=R_tag+NP*4096-tagl; j->auth_tag_output_len_in_bytes=tagl; }
  return 0; }

#define NJ 32
static uint8_t exp_out[NJ][3][700]; static int lens[3];
static uint8_t *jdst(int i){ return R_dst+4096+i*1024; } static uint8_t *jtag(int i){ return R_tag+4096+i*64; }
static void mk(IMB_MGR*m,IMB_JOB*j,int a,int dir,int i,int li){ build(m,j,a,dir,lens[li],3); j->src=R_src+4096+i*7; j->dst=jdst(i); if(j->auth_tag_output) j->auth_tag_output=jtag(i); 
  uint8_t *ivp=R_iv+4096+i*32; j->iv=ivp; if(a==A_ZUCEIA) j->u.ZUC_EIA3._iv=ivp; if(a==A_S3UIA) j->u.SNOW3G_UIA2._iv=ivp; if(a==A_GMAC) j->u.GMAC._iv=ivp; j->user_data=(void*)(long)(i*4+li); }
static void snap(int a,int i,int li,uint8_t*out){ memset(out,0,700); if(a<A_HSHA1) memcpy(out,jdst(i),lens[li]); memcpy(out+620,jtag(i),64); }
int main(int argc,char**argv){ int K=argc>1?atoi(argv[1]):2; 
  R_src=mkregion(); R_dst=mkregion(); R_iv=mkregion(); R_tag=mkregion(); R_aad=mkregion(); for(int i=0;i<NP*4096;i++){ R_src[i]=i*31+7; R_iv[i]=i*5+1; R_aad[i]=i*3+2; }
  int algos[]={A_CBC,A_DOCSIS,A_DES,A_DES3,A_DOCSISDES,A_CCM,A_ZUC,A_ZUC256,A_SNOW3G,A_CFB,A_HSHA1,A_HSHA256,A_HSHA512,A_HMD5,A_XCBC,A_CMAC,A_SHA1,A_SHA512,A_ZUCEIA,A_S3UIA}; int na=sizeof algos/sizeof algos[0];
  long total=0, sched=0, mism=0; 
  for(int v=0;v<7;v++){ IMB_MGR*m=alloc_mb_mgr(V[v].fl); V[v].f(m);
    IMB_AES_KEYEXP_128(m,key,ek,dk); IMB_DES_KEYSCHED(m,dks,key); ks3[0]=ks3[1]=ks3[2]=dks; IMB_AES_CMAC_SUBKEY_GEN_128(m,ek,sk1,sk2); IMB_AES_XCBC_KEYEXP(m,key,k1e,k2,k3); IMB_AES128_GCM_PRE(m,key,&gk); IMB_SNOW3G_INIT_KEY_SCHED(m,key,&sks); IMB_KASUMI_INIT_F8_KEY_SCHED(m,key,&kks8); IMB_KASUMI_INIT_F9_KEY_SCHED(m,key,&kks9);
    for(int ai=0;ai<na;ai++){ int a=algos[ai]; int dir=1; lens[0]=64; lens[1]=(a==A_DES||a==A_DES3)?8:16; lens[2]=304; if(a==A_DOCSIS||a==A_DOCSISDES||a>=A_HSHA1||a==A_ZUC||a==A_ZUC256||a==A_SNOW3G||a==A_CCM){ lens[1]=13; lens[2]=301; }
      if(a==A_HSHA1) imb_hmac_ipad_opad(m,IMB_AUTH_HMAC_SHA_1,key,16,ipad,opad); if(a==A_HSHA256) imb_hmac_ipad_opad(m,IMB_AUTH_HMAC_SHA_256,key,16,ipad,opad); if(a==A_HSHA512) imb_hmac_ipad_opad(m,IMB_AUTH_HMAC_SHA_512,key,16,ipad,opad); if(a==A_HMD5) imb_hmac_ipad_opad(m,IMB_AUTH_MD5,key,16,ipad,opad);
      /* solo expectations */
      for(int i=0;i<NJ;i++) for(int li=0;li<3;li++){ memset(jdst(i),0,1024); memset(jtag(i),0,64); IMB_JOB*j=IMB_GET_NEXT_JOB(m); mk(m,j,a,dir,i,li); IMB_JOB*r=IMB_SUBMIT_JOB(m); if(!r) r=IMB_FLUSH_JOB(m); if(!r||r->status!=IMB_STATUS_COMPLETED){ printf("solo fail %s %s len %d errno %d\n",V[v].n,AN[a],lens[li],imb_get_errno(m)); } snap(a,i,li,exp_out[i][li]); }
      long am=0; int firstd1=-1,firstd2=-1;
      /* deviations: index d in [0, NJ*3): pos=d/3, type=d%3 (0: len1, 1: len2, 2: flush before) */
      int ND=NJ*3;
      for(int d1=-1; d1<ND; d1++) for(int d2=(K>=2? d1: ND-1); d2<ND; d2++){ if(d1==-1 && d2!=ND-1 && K>=2) { /* k=1 handled as (d1=-1,d2=x)? */ }
        int D1=d1, D2= (K>=2 && d1>=0)? d2 : -1; if(K>=2 && d1>=0 && d2==d1) D2=-1; /* single deviation when equal */
        if(d1==-1){ if(d2!=ND-1) continue; D1=-1; D2=-1; }
        if(D1>=0&&D2>=0&&D1/3==D2/3&&D1%3!=2&&D2%3!=2) continue; /* two lengths for same job */
        int li[NJ]; int fl[NJ]; for(int i=0;i<NJ;i++){li[i]=0;fl[i]=0;} int dd[2]={D1,D2}; for(int t=0;t<2;t++) if(dd[t]>=0){ int pos=dd[t]/3, ty=dd[t]%3; if(ty==2) fl[pos]=1; else li[pos]=ty+1; }
        for(int i=0;i<NJ;i++){ memset(jdst(i),0,li[i]==2?320:80); memset(jtag(i),0,64);} 
        int done[NJ]; memset(done,0,sizeof done); int ndone=0, order_ok=1, next_expected=0;
        for(int i=0;i<NJ;i++){ if(fl[i]){ IMB_JOB*r=IMB_FLUSH_JOB(m); if(r){ int id=(int)((long)r->user_data/4); if(id!=next_expected) order_ok=0; next_expected++; done[id]++; ndone++; } }
          IMB_JOB*j=IMB_GET_NEXT_JOB(m); mk(m,j,a,dir,i,li[i]); IMB_JOB*r=IMB_SUBMIT_JOB(m); total++; while(r){ int id=(int)((long)r->user_data/4); if(id!=next_expected) order_ok=0; next_expected++; done[id]++; ndone++; r=IMB_GET_COMPLETED_JOB(m);} }
        IMB_JOB*r; while((r=IMB_FLUSH_JOB(m))){ int id=(int)((long)r->user_data/4); if(id!=next_expected) order_ok=0; next_expected++; done[id]++; ndone++; }
        sched++; int bad=0; if(ndone!=NJ||!order_ok) bad=1; for(int i=0;i<NJ&&!bad;i++){ uint8_t o[700]; snap(a,i,li[i],o); if(done[i]!=1||memcmp(o,exp_out[i][li[i]],700)) bad=1; }
        if(bad){ am++; mism++; if(firstd1<0){firstd1=D1;firstd2=D2;} }
      }
      if(am) printf("%-10s %-12s: schedules with mismatch=%ld first deviations=(%d,%d)\n",V[v].n,AN[a],am,firstd1,firstd2);
    }
    free_mb_mgr(m); }
  printf("schedules=%ld jobs=%ld mismatching_schedules=%ld\n",sched,total,mism); return 0; }
