#include <stdio.h>
#include <string.h>
#include <stdlib.h>
#include <intel-ipsec-mb.h>
typedef void (*initfn)(IMB_MGR*);
static struct {const char*n; initfn f; uint64_t fl;} V[]={ {"sse_t1",init_mb_mgr_sse,IMB_FLAG_SHANI_OFF},{"sse_t2",init_mb_mgr_sse,IMB_FLAG_GFNI_OFF},{"sse_t3",init_mb_mgr_sse,0},{"avx2_t1",init_mb_mgr_avx2,IMB_FLAG_SHANI_OFF},{"avx2_t2",init_mb_mgr_avx2,0},{"avx512_t1",init_mb_mgr_avx512,IMB_FLAG_SHANI_OFF},{"avx512_t2",init_mb_mgr_avx512,0}};
static uint8_t key[32]={1,2,3,4,5}, iv[12]={7,8,9}, aad[24]={5,6}, src[2048], one[2048], seg[2048], tag1[16], tag2[16];
int main(int argc,char**argv){ int LMAX=argc>1?atoi(argv[1]):96; for(int i=0;i<2048;i++) src[i]=i*7+1; long runs=0,bad=0;
  for(int v=0;v<7;v++){ IMB_MGR*m=alloc_mb_mgr(V[v].fl); V[v].f(m);
    for(int ks=0;ks<3;ks++) for(int dir=0;dir<2;dir++){ struct gcm_key_data gk; if(ks==0) IMB_AES128_GCM_PRE(m,key,&gk); else if(ks==1) IMB_AES192_GCM_PRE(m,key,&gk); else IMB_AES256_GCM_PRE(m,key,&gk); long b0=bad;
      for(int L=0;L<=LMAX;L++){ struct gcm_context_data c;
        /* one-shot */
        if(ks==0){ if(dir) IMB_AES128_GCM_ENC(m,&gk,&c,one,src,L,iv,aad,sizeof aad,tag1,16); else IMB_AES128_GCM_DEC(m,&gk,&c,one,src,L,iv,aad,sizeof aad,tag1,16);} else if(ks==1){ if(dir) IMB_AES192_GCM_ENC(m,&gk,&c,one,src,L,iv,aad,sizeof aad,tag1,16); else IMB_AES192_GCM_DEC(m,&gk,&c,one,src,L,iv,aad,sizeof aad,tag1,16);} else { if(dir) IMB_AES256_GCM_ENC(m,&gk,&c,one,src,L,iv,aad,sizeof aad,tag1,16); else IMB_AES256_GCM_DEC(m,&gk,&c,one,src,L,iv,aad,sizeof aad,tag1,16);} 
        for(int a=0;a<=L;a++) for(int b=a;b<=L;b++){ int s3[3]={a,b-a,L-b}; memset(seg,0,L+16); int off=0;
          #define UPD(o,i,n) do{ if(ks==0){ if(dir) IMB_AES128_GCM_ENC_UPDATE(m,&gk,&c,o,i,n); else IMB_AES128_GCM_DEC_UPDATE(m,&gk,&c,o,i,n);} else if(ks==1){ if(dir) IMB_AES192_GCM_ENC_UPDATE(m,&gk,&c,o,i,n); else IMB_AES192_GCM_DEC_UPDATE(m,&gk,&c,o,i,n);} else { if(dir) IMB_AES256_GCM_ENC_UPDATE(m,&gk,&c,o,i,n); else IMB_AES256_GCM_DEC_UPDATE(m,&gk,&c,o,i,n);} }while(0)
          if(ks==0) IMB_AES128_GCM_INIT(m,&gk,&c,iv,aad,sizeof aad); else if(ks==1) IMB_AES192_GCM_INIT(m,&gk,&c,iv,aad,sizeof aad); else IMB_AES256_GCM_INIT(m,&gk,&c,iv,aad,sizeof aad);
          for(int t=0;t<3;t++){ UPD(seg+off,src+off,s3[t]); off+=s3[t]; }
          if(ks==0){ if(dir) IMB_AES128_GCM_ENC_FINALIZE(m,&gk,&c,tag2,16); else IMB_AES128_GCM_DEC_FINALIZE(m,&gk,&c,tag2,16);} else if(ks==1){ if(dir) IMB_AES192_GCM_ENC_FINALIZE(m,&gk,&c,tag2,16); else IMB_AES192_GCM_DEC_FINALIZE(m,&gk,&c,tag2,16);} else { if(dir) IMB_AES256_GCM_ENC_FINALIZE(m,&gk,&c,tag2,16); else IMB_AES256_GCM_DEC_FINALIZE(m,&gk,&c,tag2,16);} 
          runs++; if(memcmp(seg,one,L)||memcmp(tag1,tag2,16)){ if(bad-b0<3) printf("  GCM%d %s %s L=%d split=(%d,%d,%d) %s%s\n",128+64*ks,dir?"enc":"dec",V[v].n,L,s3[0],s3[1],s3[2],memcmp(seg,one,L)?"DATA ":"",memcmp(tag1,tag2,16)?"TAG":""); bad++; } }
      }
      if(bad>b0) printf("%s GCM-%d %s: %ld mismatching partitions\n",V[v].n,128+64*ks,dir?"enc":"dec",bad-b0);
    }
    /* chacha20-poly1305 direct */
    for(int dir=0;dir<2;dir++){ long b0=bad; for(int L=0;L<=LMAX;L++){ struct chacha20_poly1305_context_data c; 
        IMB_CHACHA20_POLY1305_INIT(m,key,&c,iv,aad,sizeof aad); if(dir) IMB_CHACHA20_POLY1305_ENC_UPDATE(m,key,&c,one,src,L); else IMB_CHACHA20_POLY1305_DEC_UPDATE(m,key,&c,one,src,L); if(dir) IMB_CHACHA20_POLY1305_ENC_FINALIZE(m,&c,tag1,16); else IMB_CHACHA20_POLY1305_DEC_FINALIZE(m,&c,tag1,16);
        for(int a=0;a<=L;a++) for(int b=a;b<=L;b++){ int s3[3]={a,b-a,L-b}; int off=0; memset(seg,0,L+16); IMB_CHACHA20_POLY1305_INIT(m,key,&c,iv,aad,sizeof aad);
          for(int t=0;t<3;t++){ if(dir) IMB_CHACHA20_POLY1305_ENC_UPDATE(m,key,&c,seg+off,src+off,s3[t]); else IMB_CHACHA20_POLY1305_DEC_UPDATE(m,key,&c,seg+off,src+off,s3[t]); off+=s3[t]; }
          if(dir) IMB_CHACHA20_POLY1305_ENC_FINALIZE(m,&c,tag2,16); else IMB_CHACHA20_POLY1305_DEC_FINALIZE(m,&c,tag2,16);
          runs++; if(memcmp(seg,one,L)||memcmp(tag1,tag2,16)){ if(bad-b0<3) printf("  CHACHA-POLY %s %s L=%d split=(%d,%d,%d) %s%s\n",dir?"enc":"dec",V[v].n,L,s3[0],s3[1],s3[2],memcmp(seg,one,L)?"DATA ":"",memcmp(tag1,tag2,16)?"TAG":""); bad++; } } }
      if(bad>b0) printf("%s CHACHA-POLY %s: %ld mismatching partitions\n",V[v].n,dir?"enc":"dec",bad-b0); }
    free_mb_mgr(m); }
  printf("partition runs=%ld mismatches=%ld\n",runs,bad); return 0; }
