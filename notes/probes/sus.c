#define _GNU_SOURCE
#include <stdio.h>
#include <string.h>
#include <stdlib.h>
#include <unistd.h>
#include <sys/wait.h>
#include <sys/mman.h>
#include <intel-ipsec-mb.h>
void* tramp2(void *fn, void *a1, uint8_t *stktop, uint8_t *out);
static int run(const char*name, int (*f)(void)){ fflush(stdout); pid_t p=fork(); if(!p){ int r=f(); fflush(stdout); _exit(r);} int st; waitpid(p,&st,0); if(WIFSIGNALED(st)) printf("%-46s => SIGNAL %d\n",name,WTERMSIG(st)); else printf("%-46s => exit %d\n",name,WEXITSTATUS(st)); return 0; }
static uint8_t key[32]={1,2,3}, iv[16]={4}, aad[16]={5}, src[512], dst[512], dst2[512], tag[16], tag2[16];
static struct gcm_key_data gk; static struct gcm_context_data gctx;
static IMB_MGR* mk(int z){ IMB_MGR*m=alloc_mb_mgr(0); if(z) init_mb_mgr_avx512(m); else init_mb_mgr_sse(m); return m; }
static int f8(void){ init_mb_mgr_sse(NULL); return imb_get_errno(NULL)==IMB_ERR_NULL_MBMGR?0:1; }
static int gcmdec(int z,int len,int nullenc){ IMB_MGR*m=mk(z); IMB_AES128_GCM_PRE(m,key,&gk); for(int i=0;i<512;i++) src[i]=i;
  IMB_JOB*j=IMB_GET_NEXT_JOB(m); memset(j,0,sizeof *j); j->cipher_mode=IMB_CIPHER_GCM; j->hash_alg=IMB_AUTH_AES_GMAC; j->cipher_direction=IMB_DIR_DECRYPT; j->chain_order=IMB_ORDER_HASH_CIPHER; j->src=src; j->dst=dst; j->dec_keys=&gk; j->enc_keys= nullenc?NULL:&gk; j->key_len_in_bytes=16; j->iv=iv; j->iv_len_in_bytes=12; j->msg_len_to_cipher_in_bytes=len; j->u.GCM.aad=aad; j->u.GCM.aad_len_in_bytes=8; j->auth_tag_output=tag; j->auth_tag_output_len_in_bytes=16;
  IMB_JOB*r=IMB_SUBMIT_JOB(m); if(!r) return 10+ (imb_get_errno(m)!=0); return r->status==IMB_STATUS_COMPLETED?0:2; }
static int f2a(void){return gcmdec(1,64,1);} static int f2b(void){return gcmdec(1,300,1);} static int f2c(void){return gcmdec(0,64,1);} 
static int f6(void){ IMB_MGR*m=mk(1); IMB_AES128_GCM_PRE(m,key,&gk); IMB_JOB*j=IMB_GET_NEXT_JOB(m); memset(j,0,sizeof *j); j->cipher_mode=IMB_CIPHER_GCM_SGL; j->hash_alg=IMB_AUTH_GCM_SGL; j->cipher_direction=IMB_DIR_DECRYPT; j->chain_order=IMB_ORDER_HASH_CIPHER; j->dec_keys=&gk; j->enc_keys=NULL; j->key_len_in_bytes=16; j->iv=iv; j->iv_len_in_bytes=12; j->u.GCM.aad=aad; j->u.GCM.aad_len_in_bytes=8; j->u.GCM.ctx=&gctx; j->sgl_state=IMB_SGL_INIT; IMB_JOB*r=IMB_SUBMIT_JOB(m); if(!r) return 10+(imb_get_errno(m)!=0); return r->status==IMB_STATUS_COMPLETED?0:2; }
static int f6b(void){ IMB_MGR*m=mk(1); static uint32_t ke[32],kd[32]; static struct gcm_key_data sk; IMB_JOB*j=IMB_GET_NEXT_JOB(m); memset(j,0,sizeof *j); memset(&sk,0,sizeof sk); j->cipher_mode=IMB_CIPHER_SM4_GCM; j->hash_alg=IMB_AUTH_SM4_GCM; j->cipher_direction=IMB_DIR_DECRYPT; j->chain_order=IMB_ORDER_HASH_CIPHER; j->src=src; j->dst=dst; j->dec_keys=&sk; j->enc_keys=NULL; j->key_len_in_bytes=16; j->iv=iv; j->iv_len_in_bytes=12; j->msg_len_to_cipher_in_bytes=32; j->u.GCM.aad=aad; j->u.GCM.aad_len_in_bytes=8; j->auth_tag_output=tag; j->auth_tag_output_len_in_bytes=16; IMB_JOB*r=IMB_SUBMIT_JOB(m); if(!r) return 10+(imb_get_errno(m)!=0); return r->status==IMB_STATUS_COMPLETED?0:2; }
static int f5(void){ IMB_MGR*m=mk(1); uint32_t n=IMB_SUBMIT_HASH_BURST(m,NULL,4,IMB_AUTH_HMAC_SHA_1); printf("   hash_burst(NULL): ret=%u mgr->imb_errno=%d imb_get_errno(mgr)=%d ; ",n,m->imb_errno,imb_get_errno(m)); n=IMB_SUBMIT_CIPHER_BURST(m,NULL,4,IMB_CIPHER_CBC,IMB_DIR_ENCRYPT,16); printf("cipher_burst(NULL): ret=%u mgr->imb_errno=%d\n",n,m->imb_errno); return 0; }
static int f4(void){ IMB_MGR*m=mk(1); static uint32_t ek[60] __attribute__((aligned(16))),dk[60] __attribute__((aligned(16))),s1[4],s2[4]; IMB_AES_KEYEXP_128(m,key,ek,dk); IMB_AES_CMAC_SUBKEY_GEN_128(m,ek,s1,s2); static uint8_t big[20000]; static IMB_JOB jobs[2]; memset(jobs,0,sizeof jobs);
  for(int i=0;i<2;i++){ IMB_JOB*j=&jobs[i]; j->src=big; j->msg_len_to_hash_in_bits=100000; j->u.CMAC._key_expanded=ek; j->u.CMAC._skey1=s1; j->u.CMAC._skey2=s2; j->auth_tag_output=tag; j->auth_tag_output_len_in_bytes=4; }
  uint32_t n=IMB_SUBMIT_HASH_BURST(m,jobs,2,IMB_AUTH_AES_CMAC_BITLEN); printf("   cmac_bitlen burst, 100000 bits, job->hash_alg unset: ret=%u errno=%d status0=%d ; ",n,imb_get_errno(m),jobs[0].status);
  for(int i=0;i<2;i++){ jobs[i].hash_alg=IMB_AUTH_AES_CMAC_BITLEN; jobs[i].msg_len_to_hash_in_bits=100000; jobs[i].status=0;} n=IMB_SUBMIT_HASH_BURST(m,jobs,2,IMB_AUTH_AES_CMAC_BITLEN); printf("with hash_alg set: ret=%u errno=%d\n",n,imb_get_errno(m)); return 0; }
#define SS (256*1024)
static int f7(void){ uint8_t*stk=mmap(0,SS,PROT_READ|PROT_WRITE,MAP_PRIVATE|MAP_ANONYMOUS,-1,0); static uint8_t regs[128+2048]; static uint8_t s1[SS]; IMB_MGR*m=mk(1); int total=0;
  for(int round=0;round<2;round++){ key[0]=round?0x77:0x11; key[17]=round?0x99:0x22; IMB_JOB*j=IMB_GET_NEXT_JOB(m); memset(j,0,sizeof *j); j->cipher_mode=IMB_CIPHER_SNOW_V_AEAD; j->hash_alg=IMB_AUTH_SNOW_V_AEAD; j->cipher_direction=IMB_DIR_ENCRYPT; j->chain_order=IMB_ORDER_CIPHER_HASH; j->src=src; j->dst=dst; j->enc_keys=key; j->key_len_in_bytes=32; j->iv=iv; j->iv_len_in_bytes=16; j->msg_len_to_cipher_in_bytes=64; j->u.SNOW_V_AEAD.aad=aad; j->u.SNOW_V_AEAD.aad_len_in_bytes=8; j->auth_tag_output=tag; j->auth_tag_output_len_in_bytes=16;
    memset(stk,0xA5,SS); tramp2((void*)m->submit_job,m,stk+SS-64,regs); if(!round) memcpy(s1,stk,SS); else { int first=-1; for(int i=0;i<SS-64;i++) if(s1[i]!=stk[i]){ total++; if(first<0) first=i; } printf("   snow-v-aead: key-dependent bytes left on stack: %d (first at top-%d)\n",total,first<0?0:SS-64-first); } }
  return total?3:0; }
static int f7b(void){ uint8_t*stk=mmap(0,SS,PROT_READ|PROT_WRITE,MAP_PRIVATE|MAP_ANONYMOUS,-1,0); static uint8_t regs[128+2048]; static uint8_t s1[SS]; IMB_MGR*m=mk(1); int total=0; static struct gcm_key_data g2;
  for(int round=0;round<2;round++){ key[0]=round?0x77:0x11; IMB_AES128_GCM_PRE(m,key,&g2); IMB_JOB*j=IMB_GET_NEXT_JOB(m); memset(j,0,sizeof *j); j->cipher_mode=IMB_CIPHER_GCM; j->hash_alg=IMB_AUTH_AES_GMAC; j->cipher_direction=IMB_DIR_ENCRYPT; j->chain_order=IMB_ORDER_CIPHER_HASH; j->src=src; j->dst=dst; j->enc_keys=&g2; j->dec_keys=&g2; j->key_len_in_bytes=16; j->iv=iv; j->iv_len_in_bytes=12; j->msg_len_to_cipher_in_bytes=64; j->u.GCM.aad=aad; j->u.GCM.aad_len_in_bytes=8; j->auth_tag_output=tag; j->auth_tag_output_len_in_bytes=16;
    memset(stk,0xA5,SS); tramp2((void*)m->submit_job,m,stk+SS-64,regs); if(!round) memcpy(s1,stk,SS); else { for(int i=0;i<SS-64;i++) if(s1[i]!=stk[i]) total++; printf("   aes-gcm (control): key-dependent bytes left on stack: %d\n",total);} }
  return 0; }
int main(void){ run("F8 init_mb_mgr_sse(NULL)",f8); run("F2 avx512 GCM dec 64B enc_keys=NULL",f2a); run("F2 avx512 GCM dec 300B enc_keys=NULL",f2b); run("F2 sse GCM dec 64B enc_keys=NULL",f2c); run("F6 GCM-SGL dec INIT enc_keys=NULL",f6); run("F6 SM4-GCM dec enc_keys=NULL",f6b); run("F5 sync burst NULL jobs",f5); run("F4 cmac bitlen sync burst",f4); run("F7 snow-v-aead stack residue",f7); run("F7 control aes-gcm",f7b); return 0; }
