#define _GNU_SOURCE
#include <stdio.h>
#include <string.h>
#include <stdlib.h>
#include <signal.h>
#include <ucontext.h>
#include <sys/mman.h>
#include <intel-ipsec-mb.h>
static uint8_t *R;
static void segv(int s,siginfo_t*si,void*u){ ucontext_t*uc=u; printf("FAULT addr=buf_end+%ld rip=%p\n",(long)((uint8_t*)si->si_addr-(R+8192)),(void*)uc->uc_mcontext.gregs[REG_RIP]); fflush(stdout); _exit(3);} 
int main(int argc,char**argv){ int which=atoi(argv[1]), len=atoi(argv[2]); struct sigaction sa={0}; sa.sa_sigaction=segv; sa.sa_flags=SA_SIGINFO; sigaction(SIGSEGV,&sa,0);
  R=mmap(0,3*4096,PROT_NONE,MAP_PRIVATE|MAP_ANONYMOUS,-1,0); mprotect(R,8192,PROT_READ|PROT_WRITE); uint8_t*src=R+8192-len; memset(R,0x5a,8192);
  static uint8_t key[32]={1,2,3}, iv[16]={4}, dst[4096], tag[16]; static uint32_t ek[60] __attribute__((aligned(16))),dk[60] __attribute__((aligned(16))),s1[4],s2[4];
  IMB_MGR*m=alloc_mb_mgr(0); if(which==0) init_mb_mgr_sse(m); else init_mb_mgr_avx512(m);
  IMB_JOB*j=IMB_GET_NEXT_JOB(m); memset(j,0,sizeof *j); j->chain_order=IMB_ORDER_CIPHER_HASH; j->cipher_direction=IMB_DIR_ENCRYPT; j->src=src; j->dst=dst;
  if(which==0){ j->cipher_mode=IMB_CIPHER_CHACHA20; j->hash_alg=IMB_AUTH_NULL; j->enc_keys=key; j->key_len_in_bytes=32; j->iv=iv; j->iv_len_in_bytes=12; j->msg_len_to_cipher_in_bytes=len; }
  else { IMB_AES_KEYEXP_128(m,key,ek,dk); IMB_AES_CMAC_SUBKEY_GEN_128(m,ek,s1,s2); j->cipher_mode=IMB_CIPHER_NULL; j->hash_alg=IMB_AUTH_AES_CMAC; j->u.CMAC._key_expanded=ek; j->u.CMAC._skey1=s1; j->u.CMAC._skey2=s2; j->msg_len_to_hash_in_bytes=len; j->auth_tag_output=tag; j->auth_tag_output_len_in_bytes=16; }
  IMB_JOB*r=IMB_SUBMIT_JOB(m); if(!r) r=IMB_FLUSH_JOB(m); printf("ok status=%d errno=%d\n",r?r->status:-1,imb_get_errno(m)); return 0; }
