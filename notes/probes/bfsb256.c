#define _GNU_SOURCE
#include <stdio.h>
#include <stdlib.h>
#include <string.h>
#include <time.h>
#include <stddef.h>
#include <intel-ipsec-mb.h>
#include "include/ipsec_ooo_mgr.h"
static double now(void){struct timespec t;clock_gettime(CLOCK_MONOTONIC,&t);return t.tv_sec+t.tv_nsec*1e-9;}
#define RING IMB_MAX_JOBS
#define MAXB IMB_MAX_BURST_SIZE
static IMB_MGR *m; static size_t msz;
static uint8_t key[16]={1}, iv[16]={2}, src[512], ipad[64] __attribute__((aligned(16))), opad[64] __attribute__((aligned(16)));
static uint32_t ek[60] __attribute__((aligned(16))), dk[60] __attribute__((aligned(16)));
static uint8_t dst[RING][64], tag[RING][64];
enum {K_I,K_PS,K_PL,K_X,NK};
static void fill(IMB_JOB*j,int kind,int slot){ memset(j,0,sizeof *j); j->chain_order=IMB_ORDER_CIPHER_HASH; j->cipher_direction=IMB_DIR_ENCRYPT; j->cipher_mode=IMB_CIPHER_NULL; j->hash_alg=IMB_AUTH_NULL; j->user_data=(void*)(long)kind; j->src=src;
  if(kind==K_PS||kind==K_PL){ j->hash_alg=IMB_AUTH_HMAC_SHA_512; j->msg_len_to_hash_in_bytes= kind==K_PS?40:300; j->auth_tag_output=tag[slot]; j->auth_tag_output_len_in_bytes=32; j->u.HMAC._hashed_auth_key_xor_ipad=ipad; j->u.HMAC._hashed_auth_key_xor_opad=opad; }
  if(kind==K_X){ j->cipher_mode=IMB_CIPHER_CBC; j->dst=dst[slot]; j->enc_keys=ek; j->dec_keys=dk; j->key_len_in_bytes=16; j->iv=iv; j->iv_len_in_bytes=16; j->msg_len_to_cipher_in_bytes=0; }
  imb_set_session(m,j); }
typedef struct { uint8_t *snap; int head,count; int depth; } st_t;
static uint64_t fnv(const void*p,size_t n,uint64_t h){const uint8_t*b=p;for(size_t i=0;i<n;i++){h^=b[i];h*=1099511628211ULL;}return h;}
static uint64_t canon(int head,int count){ uint64_t h=1469598103934665603ULL; h=fnv(&m->earliest_job,4,h); h=fnv(&m->next_job,4,h);
  for(int i=0;i<count;i++){ IMB_JOB*j=&m->jobs[(head+i)%RING]; long k=(long)j->user_data; h=fnv(&k,1,h); h=fnv(&j->status,4,h);} 
  h=fnv(m->hmac_sha_512_ooo,offsetof(MB_MGR_HMAC_SHA_512_OOO,road_block),h); return h; }
static uint64_t *set; static size_t cap=1<<26, cnt;
static int ins(uint64_t k){ if(!k)k=1; size_t i=k&(cap-1); while(set[i]){ if(set[i]==k) return 0; i=(i+1)&(cap-1);} set[i]=k; cnt++; return 1; }
/* burst patterns: kinds for position i */
static const char *PAT[]={"IIII","SSSS","LLLL","SLSL","LSLS","XIII","IIIX","ISLI","LIIS"};
#define NPAT 9
static const int NS[]={0,1,2,3,126,127,128,129};
static int kch(char c){ return c=='I'?K_I:c=='S'?K_PS:c=='L'?K_PL:K_X; }
int main(int argc,char**argv){ int maxdepth= argc>1?atoi(argv[1]):1000;
  m=alloc_mb_mgr(IMB_FLAG_SHANI_OFF); init_mb_mgr_sse(m); msz=imb_get_mb_mgr_size(); printf("ring=%d burst=%d\n",RING,MAXB);
  for(int i=0;i<512;i++) src[i]=i*13+5; IMB_AES_KEYEXP_128(m,key,ek,dk); imb_hmac_ipad_opad(m,IMB_AUTH_HMAC_SHA_512,key,16,ipad,opad);
  set=calloc(cap,8); size_t qcap=1<<22, qh=0, qt=0; st_t *q=malloc(qcap*sizeof *q);
  uint8_t*pristine=malloc(msz); memcpy(pristine,m,msz); int rots[]={0,1,127,128,254,255}; int fills[]={0,1,2,126,127,128,129,130,253,254,255}; int nseeds=0; IMB_JOB*bj[RING+4];
  for(int ri=0;ri<6;ri++) for(int fi=0;fi<11;fi++){ memcpy(m,pristine,msz); int head=0,count=0; int bad=0;
    for(int k=0;k<rots[ri];k++){ uint32_t g=IMB_GET_NEXT_BURST(m,1,bj); if(g!=1){bad=1;break;} fill(bj[0],K_I,(int)(bj[0]-m->jobs)); uint32_t r=IMB_SUBMIT_BURST(m,1,bj); if(r!=1) bad=1; }
    /* burst API resets next_job=0 when empty: so rotation is lost; instead keep one parked job alive during rotation */
    memcpy(m,pristine,msz); head=0; count=0; { uint32_t g=IMB_GET_NEXT_BURST(m,1,bj); fill(bj[0],K_PL,(int)(bj[0]-m->jobs)); IMB_SUBMIT_BURST(m,1,bj); count=1; head=0; (void)g; }
    for(int k=0;k<rots[ri]+fills[fi] && count<RING-1;k++){ uint32_t g=IMB_GET_NEXT_BURST(m,1,bj); if(g!=1) break; int slot=(int)(bj[0]-m->jobs); fill(bj[0], K_I, slot); uint32_t r=IMB_SUBMIT_BURST(m,1,bj); count++; for(uint32_t i=0;i<r;i++){ head=(head+1)%RING; count--; }
      if(k<rots[ri] && count>1){ /* drain oldest to rotate: flush one */ uint32_t f=IMB_FLUSH_BURST(m,1,bj); for(uint32_t i=0;i<f;i++){ head=(head+1)%RING; count--; } if(count==0){ uint32_t g2=IMB_GET_NEXT_BURST(m,1,bj); (void)g2; } } }
    if(IMB_QUEUE_SIZE(m)!=(unsigned)count){ printf("SEED qsize mismatch %u vs %d\n",IMB_QUEUE_SIZE(m),count); continue; }
    if(count) head=m->earliest_job/(int)sizeof(IMB_JOB);
    if(ins(canon(head,count))){ q[qt].snap=malloc(msz); memcpy(q[qt].snap,m,msz); q[qt].head=head;q[qt].count=count;q[qt].depth=0; qt++; nseeds++; } (void)bad; }
  printf("seeds=%d\n",nseeds);
  size_t trans=0, viol=0; int maxd=0; double t0=now();
  int flushmax[]={0,1,2,MAXB,RING,RING+1}; int nfl=6;
  /* ops: for n in 0..MAXB+1 (MAXB+1 to hit size error), pat in NPAT ; flush_burst variants */
  while(qh<qt){ st_t s=q[qh++]; if(s.depth>maxd) maxd=s.depth;
    if(s.depth<maxdepth) for(int op=0; op<8*NPAT+nfl; op++){
      int isflush= op>=8*NPAT; int n= isflush?0:NS[op/NPAT], pat=isflush?0:op%NPAT; if(!isflush && n==0 && pat>0) continue; if(!isflush && n==MAXB+1 && pat>0) continue;
      memcpy(m,s.snap,msz); int head=s.head,count=s.count; IMB_JOB*jobs[RING+4]; trans++;
      if(!isflush){ uint32_t k=IMB_GET_NEXT_BURST(m,n,jobs); int e=imb_get_errno(m); uint32_t expk= n>MAXB?0: (uint32_t)((RING-count)<n?(RING-count):n);
        if(k!=expk){ printf("VIOL get_next_burst(%d) ret %u exp %u (count=%d errno=%d)\n",n,k,expk,count,e); viol++; }
        if(n>MAXB){ if(e!=IMB_ERR_BURST_SIZE){printf("VIOL errno burst size %d\n",e);viol++;} goto after; }
        int first_slot= k? (int)(jobs[0]-m->jobs):-1; int hasx=0;
        for(uint32_t i=0;i<k;i++){ int slot=(int)(jobs[i]-m->jobs); if(slot!=(first_slot+(int)i)%RING){printf("VIOL burst slots not consecutive\n");viol++;}
          for(int q2=0;q2<count;q2++) if(slot==(head+q2)%RING){printf("VIOL burst slot in use\n");viol++;}
          int kind=kch(PAT[pat][i%4]); if(kind==K_X) hasx=1; fill(jobs[i],kind,slot); }
        if(count==0 && k) head=first_slot;
        IMB_JOB*sub[RING+4]; memcpy(sub,jobs,sizeof(IMB_JOB*)*k);
        uint32_t r=IMB_SUBMIT_BURST(m,k,jobs); e=imb_get_errno(m);
        if(hasx){ if(r!=0||e==0){printf("VIOL invalid burst accepted r=%u e=%d\n",r,e);viol++;} if(jobs[0]->status!=IMB_STATUS_INVALID_ARGS){printf("VIOL invalid job not flagged\n");viol++;} if(count==0) head=s.head; }
        else { if(e!=0){printf("VIOL errno %d on valid burst n=%u count=%d\n",e,k,count);viol++;} count+=k;
          for(uint32_t i=0;i<r;i++){ if(jobs[i]!=&m->jobs[head]){printf("VIOL burst out of order: got %ld exp %d (n=%u pat=%s i=%u r=%u depth=%d)\n",(long)(jobs[i]-m->jobs),head,k,PAT[pat],i,r,s.depth);viol++;} if(jobs[i]->status!=IMB_STATUS_COMPLETED){printf("VIOL status %d\n",jobs[i]->status);viol++;} head=(head+1)%RING; count--; }
          if(r>k && k){printf("VIOL returned more than submitted r=%u k=%u\n",r,k);viol++;} }
      } else { int mx=flushmax[op-8*NPAT]; uint32_t r=IMB_FLUSH_BURST(m,mx,jobs); uint32_t exp=(uint32_t)(count<mx?count:mx); if(r!=exp){printf("VIOL flush_burst(%d) ret %u exp %u\n",mx,r,exp);viol++;}
        for(uint32_t i=0;i<r;i++){ if(jobs[i]!=&m->jobs[head]){printf("VIOL flush order\n");viol++;} if(jobs[i]->status!=IMB_STATUS_COMPLETED){printf("VIOL flush status %d\n",jobs[i]->status);viol++;} head=(head+1)%RING; count--; } }
      after:
      if(IMB_QUEUE_SIZE(m)!=(unsigned)count){printf("VIOL: qsize %u vs %d (op %d depth %d)\n",IMB_QUEUE_SIZE(m),count,op,s.depth);viol++;}
      if(viol>20) goto out;
      if(ins(canon(head,count))){ if(qt==qcap){qcap*=2;q=realloc(q,qcap*sizeof *q);} q[qt].snap=malloc(msz); memcpy(q[qt].snap,m,msz); q[qt].head=head;q[qt].count=count;q[qt].depth=s.depth+1; qt++; }
    }
    free(s.snap);
    if((qh&0x3fff)==0) fprintf(stderr,"states=%zu frontier=%zu depth=%d trans=%zu %.0fs\n",cnt,qt-qh,s.depth,trans,now()-t0);
  }
out: printf("DONE states=%zu transitions=%zu maxdepth=%d viol=%zu time=%.1fs\n",cnt,trans,maxd,viol,now()-t0); return 0; }
