#include <stdio.h>
#include <string.h>
#include <stdlib.h>
#include <sys/mman.h>
#include <intel-ipsec-mb.h>
void* tramp2(void *fn, void *a1, uint8_t *stktop, uint8_t *out);
#define SS (256*1024)
#define MAGIC 0xC5A37E00u
static int scan(const uint8_t*p,size_t n){ int hits=0; for(size_t i=0;i+4<=n;i++){ uint32_t w; memcpy(&w,p+i,4); if((w&0xffffff00u)==MAGIC) hits++; } return hits; }
int main(void){ uint8_t*stk=mmap(0,SS,PROT_READ|PROT_WRITE,MAP_PRIVATE|MAP_ANONYMOUS,-1,0); static uint8_t regs[128+2048];
  IMB_MGR*m=alloc_mb_mgr(0); init_mb_mgr_avx512(m); size_t msz=imb_get_mb_mgr_size();
  static uint32_t ek[64] __attribute__((aligned(64))), dk[64] __attribute__((aligned(64))); static uint8_t src[512],dst[512],iv[16],tag[64], ipad[64] __attribute__((aligned(64))), opad[64] __attribute__((aligned(64)));
  uint32_t k=0; for(int i=0;i<64;i++){ek[i]=MAGIC|k++;dk[i]=MAGIC|k++;} for(int i=0;i<16;i++){((uint32_t*)ipad)[i]=MAGIC|k++;((uint32_t*)opad)[i]=MAGIC|k++;} for(int i=0;i<128;i++) ((uint32_t*)src)[i]=MAGIC|(k++&255);
  IMB_JOB*job=IMB_GET_NEXT_JOB(m); memset(job,0,sizeof *job); job->cipher_mode=IMB_CIPHER_CBC; job->cipher_direction=IMB_DIR_ENCRYPT; job->chain_order=IMB_ORDER_CIPHER_HASH; job->hash_alg=IMB_AUTH_HMAC_SHA_1; job->src=src; job->dst=dst; job->enc_keys=ek; job->dec_keys=dk; job->key_len_in_bytes=16; job->iv=iv; job->iv_len_in_bytes=16; job->msg_len_to_cipher_in_bytes=64;
  job->msg_len_to_hash_in_bytes=64; job->auth_tag_output=tag; job->auth_tag_output_len_in_bytes=12; job->u.HMAC._hashed_auth_key_xor_ipad=ipad; job->u.HMAC._hashed_auth_key_xor_opad=opad;
  memset(stk,0xA5,SS); void*r=tramp2((void*)m->submit_job,m,stk+SS-64,regs);
  printf("parked (ret=%p): mgr hits=%d stack hits=%d regs hits=%d\n",r,scan((uint8_t*)m,msz),scan(stk,SS-64),scan(regs,sizeof regs));
  memset(stk,0xA5,SS); r=tramp2((void*)m->flush_job,m,stk+SS-64,regs); 
  printf("after flush (ret=%p status=%d): mgr hits=%d stack hits=%d regs hits=%d ; stack touched bytes=%d\n",r,((IMB_JOB*)r)->status,scan((uint8_t*)m,msz),scan(stk,SS-64),scan(regs,sizeof regs),({int c=0;for(int i=0;i<SS-64;i++)c+=stk[i]!=0xA5;c;}));
  return 0; }
