#include <stdio.h>
#include <string.h>
#include <stdlib.h>
#include <intel-ipsec-mb.h>
typedef void (*initfn)(IMB_MGR*);
static struct {const char*n; initfn f; uint64_t fl;} V[]={ {"sse_t1",init_mb_mgr_sse,IMB_FLAG_SHANI_OFF},{"sse_t2",init_mb_mgr_sse,IMB_FLAG_GFNI_OFF},{"sse_t3",init_mb_mgr_sse,0},{"avx2_t1",init_mb_mgr_avx2,IMB_FLAG_SHANI_OFF},{"avx2_t2",init_mb_mgr_avx2,0},{"avx512_t1",init_mb_mgr_avx512,IMB_FLAG_SHANI_OFF},{"avx512_t2",init_mb_mgr_avx512,0}};
#define NJ 40
static uint8_t key[32]={1,2,3}, ivs[NJ][16], aad[16]={9}, src[NJ*16+4096], o1[NJ][512], o2[NJ][512], t1[NJ][64], t2[NJ][64], ipad[64] __attribute__((aligned(16))), opad[64] __attribute__((aligned(16)));
static uint32_t ek[60] __attribute__((aligned(16))), dk[60] __attribute__((aligned(16))), s1[4], s2[4];
enum {C_CBC,C_CTR,C_ECB,C_CFB,H_HS1,H_HS256,H_HS512,H_S1,H_S256,H_S512,H_CMAC,H_CMACB,A_CCM,NA};
static const char*N[]={"cbc","ctr","ecb","cfb","hmac-sha1","hmac-sha256","hmac-sha512","sha1","sha256","sha512","cmac","cmac-bitlen","ccm"};
static void setjob(IMB_JOB*j,int a,int dir,int i,int len,uint8_t*dst,uint8_t*tag){ memset(j,0,sizeof *j); j->chain_order=dir?IMB_ORDER_CIPHER_HASH:IMB_ORDER_HASH_CIPHER; j->cipher_direction=dir?IMB_DIR_ENCRYPT:IMB_DIR_DECRYPT; j->cipher_mode=IMB_CIPHER_NULL; j->hash_alg=IMB_AUTH_NULL; j->src=src+i*16; j->dst=dst; j->iv=ivs[i]; j->iv_len_in_bytes=16; j->enc_keys=ek; j->dec_keys=dk; j->key_len_in_bytes=16; j->msg_len_to_cipher_in_bytes=len; j->msg_len_to_hash_in_bytes=len; j->user_data=(void*)(long)i;
  switch(a){case C_CBC: j->cipher_mode=IMB_CIPHER_CBC; break; case C_CTR: j->cipher_mode=IMB_CIPHER_CNTR; break; case C_ECB: j->cipher_mode=IMB_CIPHER_ECB; break; case C_CFB: j->cipher_mode=IMB_CIPHER_CFB; j->dec_keys=ek; break;
   case H_HS1: j->hash_alg=IMB_AUTH_HMAC_SHA_1; j->auth_tag_output_len_in_bytes=12; goto hm; case H_HS256: j->hash_alg=IMB_AUTH_HMAC_SHA_256; j->auth_tag_output_len_in_bytes=16; goto hm; case H_HS512: j->hash_alg=IMB_AUTH_HMAC_SHA_512; j->auth_tag_output_len_in_bytes=32; hm: j->u.HMAC._hashed_auth_key_xor_ipad=ipad; j->u.HMAC._hashed_auth_key_xor_opad=opad; j->auth_tag_output=tag; break;
   case H_S1: j->hash_alg=IMB_AUTH_SHA_1; j->auth_tag_output_len_in_bytes=20; j->auth_tag_output=tag; break; case H_S256: j->hash_alg=IMB_AUTH_SHA_256; j->auth_tag_output_len_in_bytes=32; j->auth_tag_output=tag; break; case H_S512: j->hash_alg=IMB_AUTH_SHA_512; j->auth_tag_output_len_in_bytes=64; j->auth_tag_output=tag; break;
   case H_CMAC: j->hash_alg=IMB_AUTH_AES_CMAC; goto cm; case H_CMACB: j->hash_alg=IMB_AUTH_AES_CMAC_BITLEN; j->msg_len_to_hash_in_bits=len*8-3; cm: j->u.CMAC._key_expanded=ek; j->u.CMAC._skey1=s1; j->u.CMAC._skey2=s2; j->auth_tag_output=tag; j->auth_tag_output_len_in_bytes=16; break;
   case A_CCM: j->cipher_mode=IMB_CIPHER_CCM; j->hash_alg=IMB_AUTH_AES_CCM; j->iv_len_in_bytes=13; j->u.CCM.aad=aad; j->u.CCM.aad_len_in_bytes=10; j->auth_tag_output=tag; j->auth_tag_output_len_in_bytes=8; break; } }
int main(void){ for(unsigned i=0;i<sizeof src;i++) src[i]=i*11+3; for(int i=0;i<NJ;i++) for(int k=0;k<16;k++) ivs[i][k]=i*17+k; long cmp=0,bad=0;
  int ns[]={1,2,3,4,7,8,9,15,16,17,33};
  for(int v=0;v<7;v++){ IMB_MGR*m=alloc_mb_mgr(V[v].fl); V[v].f(m); IMB_AES_KEYEXP_128(m,key,ek,dk); IMB_AES_CMAC_SUBKEY_GEN_128(m,ek,s1,s2);
    for(int a=0;a<NA;a++) for(int dir=0;dir<2;dir++){ if(a>=H_HS1&&a<A_CCM&&dir==0) continue; if(a==H_HS1) imb_hmac_ipad_opad(m,IMB_AUTH_HMAC_SHA_1,key,16,ipad,opad); if(a==H_HS256) imb_hmac_ipad_opad(m,IMB_AUTH_HMAC_SHA_256,key,16,ipad,opad); if(a==H_HS512) imb_hmac_ipad_opad(m,IMB_AUTH_HMAC_SHA_512,key,16,ipad,opad);
      for(unsigned ni=0;ni<sizeof ns/sizeof ns[0];ni++){ int n=ns[ni]; int lens[NJ]; for(int i=0;i<n;i++){ lens[i]= (a==C_CBC||a==C_ECB||a==C_CFB)? 16*(1+(i*5)%13) : 1+(i*37)%300; }
        memset(o1,0,sizeof o1); memset(o2,0,sizeof o2); memset(t1,0,sizeof t1); memset(t2,0,sizeof t2);
        /* job API one at a time */
        for(int i=0;i<n;i++){ IMB_JOB*j=IMB_GET_NEXT_JOB(m); setjob(j,a,dir,i,lens[i],o1[i],t1[i]); IMB_JOB*r=IMB_SUBMIT_JOB(m); if(!r) r=IMB_FLUSH_JOB(m); if(!r||r->status!=IMB_STATUS_COMPLETED) printf("job api fail %s %s n=%d i=%d errno=%d\n",V[v].n,N[a],n,i,imb_get_errno(m)); }
        /* sync burst */
        static IMB_JOB jobs[NJ]; for(int i=0;i<n;i++) setjob(&jobs[i],a,dir,i,lens[i],o2[i],t2[i]); uint32_t r;
        if(a<=C_CFB) r=IMB_SUBMIT_CIPHER_BURST(m,jobs,n,jobs[0].cipher_mode,jobs[0].cipher_direction,16); else if(a==A_CCM) r=IMB_SUBMIT_AEAD_BURST(m,jobs,n,IMB_CIPHER_CCM,jobs[0].cipher_direction,16); else r=IMB_SUBMIT_HASH_BURST(m,jobs,n,jobs[0].hash_alg);
        int e=imb_get_errno(m); int ok=(r==(uint32_t)n)&&!e; for(int i=0;i<n&&ok;i++) if(jobs[i].status!=IMB_STATUS_COMPLETED) ok=0; cmp++;
        if(!ok||memcmp(o1,o2,sizeof o1)||memcmp(t1,t2,sizeof t1)){ bad++; int fi=-1; for(int i=0;i<n;i++) if(memcmp(o1[i],o2[i],512)||memcmp(t1[i],t2[i],64)){fi=i;break;} printf("MISMATCH %s %s %s n=%d ret=%u errno=%d first differing job=%d\n",V[v].n,N[a],dir?"enc":"dec",n,r,e,fi); }
        /* async burst */
        memset(o2,0,sizeof o2); memset(t2,0,sizeof t2); IMB_JOB*bj[NJ]; uint32_t k=IMB_GET_NEXT_BURST(m,n,bj); for(uint32_t i=0;i<k;i++){ setjob(bj[i],a,dir,i,lens[i],o2[i],t2[i]); imb_set_session(m,bj[i]); } uint32_t done=IMB_SUBMIT_BURST(m,k,bj); e=imb_get_errno(m); while(done<k){ uint32_t f=IMB_FLUSH_BURST(m,k-done,bj); if(!f) break; done+=f; } cmp++;
        if(done!=(uint32_t)n||e||memcmp(o1,o2,sizeof o1)||memcmp(t1,t2,sizeof t1)){ bad++; printf("ASYNC-BURST MISMATCH %s %s %s n=%d done=%u errno=%d\n",V[v].n,N[a],dir?"enc":"dec",n,done,e); }
      } }
    free_mb_mgr(m); }
  printf("comparisons=%ld mismatches=%ld\n",cmp,bad); return 0; }
