#include <stdio.h>
#include <stdlib.h>
#include <string.h>
#include <intel-ipsec-mb.h>
volatile uint64_t marker[8] __attribute__((aligned(64)));
int main(int argc,char**argv){
  const char*alg=argv[1]; int avx2=argv[2][0]=='a'; int kb=atoi(argv[3]);
  IMB_MGR*m=alloc_mb_mgr(0); if(avx2) init_mb_mgr_avx2(m); else init_mb_mgr_sse(m);
  static uint8_t key[32], iv[32]={3,1,4,1,5,9,2,6}, src[128], dst[128], tag[16]; for(int i=0;i<32;i++) key[i]=(uint8_t)(kb*17+i*kb+kb); for(int i=0;i<128;i++) src[i]=i*3+1;
  static uint64_t ks[16]; static kasumi_key_sched_t kks; static snow3g_key_schedule_t sks;
  IMB_JOB*job=IMB_GET_NEXT_JOB(m); memset(job,0,sizeof *job); job->chain_order=IMB_ORDER_CIPHER_HASH; job->cipher_direction=IMB_DIR_ENCRYPT; job->cipher_mode=IMB_CIPHER_NULL; job->hash_alg=IMB_AUTH_NULL; job->src=src; job->dst=dst;
  if(!strcmp(alg,"des")){ IMB_DES_KEYSCHED(m,ks,key); job->cipher_mode=IMB_CIPHER_DES; job->enc_keys=ks; job->dec_keys=ks; job->key_len_in_bytes=8; job->iv=iv; job->iv_len_in_bytes=8; job->msg_len_to_cipher_in_bytes=64; }
  else if(!strcmp(alg,"kf8")){ IMB_KASUMI_INIT_F8_KEY_SCHED(m,key,&kks); job->cipher_mode=IMB_CIPHER_KASUMI_UEA1_BITLEN; job->enc_keys=&kks; job->key_len_in_bytes=16; job->iv=iv; job->iv_len_in_bytes=8; job->msg_len_to_cipher_in_bits=64*8; }
  else if(!strcmp(alg,"kf9")){ IMB_KASUMI_INIT_F9_KEY_SCHED(m,key,&kks); job->hash_alg=IMB_AUTH_KASUMI_UIA1; job->u.KASUMI_UIA1._key=&kks; job->msg_len_to_hash_in_bytes=64; job->auth_tag_output=tag; job->auth_tag_output_len_in_bytes=4; }
  else if(!strcmp(alg,"s3e")){ IMB_SNOW3G_INIT_KEY_SCHED(m,key,&sks); job->cipher_mode=IMB_CIPHER_SNOW3G_UEA2_BITLEN; job->enc_keys=&sks; job->key_len_in_bytes=16; job->iv=iv; job->iv_len_in_bytes=16; job->msg_len_to_cipher_in_bits=64*8; }
  else if(!strcmp(alg,"s3i")){ IMB_SNOW3G_INIT_KEY_SCHED(m,key,&sks); job->hash_alg=IMB_AUTH_SNOW3G_UIA2_BITLEN; job->u.SNOW3G_UIA2._key=&sks; job->u.SNOW3G_UIA2._iv=iv; job->msg_len_to_hash_in_bits=64*8; job->auth_tag_output=tag; job->auth_tag_output_len_in_bytes=4; }
  marker[0]=0xAAAA; IMB_JOB*r=IMB_SUBMIT_JOB(m); if(!r) r=IMB_FLUSH_JOB(m); marker[1]=0xBBBB;
  fprintf(stderr,"alg=%s status=%d errno=%d out=%02x%02x%02x%02x tag=%02x%02x\n",alg,r?r->status:-1,imb_get_errno(m),dst[0],dst[1],dst[2],dst[3],tag[0],tag[1]);
  printf("%p\n",(void*)&marker[0]); return 0; }
