#include <stdio.h>
#include <string.h>
#include <stdlib.h>
#include <intel-ipsec-mb.h>
typedef void (*initfn)(IMB_MGR*);
static void init_auto(IMB_MGR*m){ init_mb_mgr_auto(m,NULL);} 
static struct {const char*n; initfn f; uint64_t fl;} V[]={ {"sse_t1",init_mb_mgr_sse,IMB_FLAG_SHANI_OFF},{"sse_t2",init_mb_mgr_sse,IMB_FLAG_GFNI_OFF},{"sse_t3",init_mb_mgr_sse,0},{"avx2_t1",init_mb_mgr_avx2,IMB_FLAG_SHANI_OFF},{"avx2_t2",init_mb_mgr_avx2,0},{"avx512_t1",init_mb_mgr_avx512,IMB_FLAG_SHANI_OFF},{"avx512_t2",init_mb_mgr_avx512,0},{"auto",init_auto,0},{"auto_noshani",init_auto,IMB_FLAG_SHANI_OFF},{"sse_both_off",init_mb_mgr_sse,IMB_FLAG_SHANI_OFF|IMB_FLAG_GFNI_OFF}};
static unsigned long long target; static int cur, nstart, npass, nfail, ncorrupt; static unsigned long long failed;
static int cb(void*arg,const IMB_SELF_TEST_CALLBACK_DATA*d){ if(!strcmp(d->phase,"START")){cur++;nstart++;} else if(!strcmp(d->phase,"PASS")) npass++; else if(!strcmp(d->phase,"FAIL")){nfail++; failed|=1ULL<<cur;} else if(!strcmp(d->phase,"CORRUPT")){ ncorrupt++; if(target>>cur&1) return 0; } return 1; }
int main(void){ long runs=0,bad=0; for(unsigned v=0;v<sizeof V/sizeof V[0];v++){ long b0=bad; for(int a=-1;a<33;a++) for(int b=a;b<33;b++){ if(a==-1&&b!=-1&&b!=a) { if(a==-1&&b>=0) continue; }
      target= (a>=0?1ULL<<a:0)|(b>=0?1ULL<<b:0); cur=-1;nstart=npass=nfail=ncorrupt=0;failed=0; IMB_MGR*m=alloc_mb_mgr(V[v].fl); imb_self_test_set_cb(m,cb,0); V[v].f(m); runs++;
      int pass=!!(m->features&IMB_FEATURE_SELF_TEST_PASS); int e=imb_get_errno(m); int ok= nstart==33 && failed==target && npass+nfail==33 && pass==(target==0) && e==(target?IMB_ERR_SELFTEST:0) && IMB_QUEUE_SIZE(m)==0;
      if(!ok){ bad++; if(bad-b0<4) printf("%s target=%llx failed=%llx nstart=%d pass=%d errno=%d\n",V[v].n,target,failed,nstart,pass,e); } free_mb_mgr(m); }
    printf("%s: runs so far %ld, anomalies on this config %ld\n",V[v].n,runs,bad-b0); }
  return 0; }
