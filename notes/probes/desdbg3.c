#include <stdio.h>
#include <string.h>
#include <stdlib.h>
#include <intel-ipsec-mb.h>
static void hx(const char*t,const uint8_t*p,int n){ printf("%s",t); for(int i=0;i<n;i++) printf("%02x",p[i]); printf("\n"); }
int main(int argc,char**argv){ int n=2; IMB_MGR*m=alloc_mb_mgr(0); init_mb_mgr_avx512(m);
  static uint8_t key[8]={1,2,3,4,5,6,7,8}, src[2][16]={{1,2,3,4,5,6,7,8,9,10,11,12,13,14,15,16},{0x81,0x82,0x83,0x84,0x85,0x86,0x87,0x88,0x89,0x8a,0x8b,0x8c,0x8d,0x8e,0x8f,0x90}}, dst[2][16], iv[2][8]={{0,0,0,0,0,0,0,0},{0xff,0xff,0xff,0xff,0xff,0xff,0xff,0xff}}; static uint64_t ks[16]; IMB_DES_KEYSCHED(m,ks,key);
  for(int i=0;i<n;i++){ IMB_JOB*j=IMB_GET_NEXT_JOB(m); memset(j,0,sizeof *j); j->cipher_mode=IMB_CIPHER_DES; j->cipher_direction=IMB_DIR_ENCRYPT; j->chain_order=IMB_ORDER_CIPHER_HASH; j->hash_alg=IMB_AUTH_NULL; j->src=src[i]; j->dst=dst[i]; j->enc_keys=ks; j->dec_keys=ks; j->key_len_in_bytes=8; j->iv=iv[i]; j->iv_len_in_bytes=8; j->msg_len_to_cipher_in_bytes=16; j->user_data=(void*)(long)i; IMB_JOB*r=IMB_SUBMIT_JOB(m); printf("submit %d -> %p\n",i,(void*)r); }
  IMB_JOB*r; while((r=IMB_FLUSH_JOB(m))) printf("flush -> job %ld status %d\n",(long)r->user_data,r->status);
  hx("dst0 ",dst[0],16); hx("dst1 ",dst[1],16); return 0; }
