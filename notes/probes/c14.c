#define _GNU_SOURCE
#include <stdio.h>
#include <string.h>
#include <stdlib.h>
#include <signal.h>
#include <setjmp.h>
#include <sys/mman.h>
#include <intel-ipsec-mb.h>
typedef void (*initfn)(IMB_MGR*);
static struct {const char*n; initfn f; uint64_t fl;} V[]={ {"sse_t1",init_mb_mgr_sse,IMB_FLAG_SHANI_OFF},{"sse_t2",init_mb_mgr_sse,IMB_FLAG_GFNI_OFF},{"sse_t3",init_mb_mgr_sse,0},{"avx2_t1",init_mb_mgr_avx2,IMB_FLAG_SHANI_OFF},{"avx2_t2",init_mb_mgr_avx2,0},{"avx512_t1",init_mb_mgr_avx512,IMB_FLAG_SHANI_OFF},{"avx512_t2",init_mb_mgr_avx512,0}};
static sigjmp_buf jb; static volatile uintptr_t fault_addr;
static void segv(int s,siginfo_t*si,void*u){ fault_addr=(uintptr_t)si->si_addr; siglongjmp(jb,1);} 
/* guarded region: [guard][N pages][guard] */
#define NP 20
static uint8_t* mkregion(void){ uint8_t*p=mmap(0,(NP+2)*4096,PROT_NONE,MAP_PRIVATE|MAP_ANONYMOUS,-1,0); mprotect(p+4096,NP*4096,PROT_READ|PROT_WRITE); return p+4096; }
static uint8_t *R_src,*R_dst,*R_iv,*R_tag,*R_aad;
static uint8_t key[32]={1,2,3,4,5,6,7,8,9}; 
static uint32_t ek[60] __attribute__((aligned(16))), dk[60] __attribute__((aligned(16))); static uint64_t dks[16]; static const void*ks3[3]; static uint32_t sk1[4],sk2[4],k1e[44] __attribute__((aligned(16))); static uint8_t k2[16] __attribute__((aligned(16))),k3[16] __attribute__((aligned(16)));
static uint8_t ipad[64] __attribute__((aligned(16))), opad[64] __attribute__((aligned(16))); static struct gcm_key_data gk; static snow3g_key_schedule_t sks; static kasumi_key_sched_t kks8,kks9;
enum {A_CBC,A_CTR,A_CTR16,A_ECB,A_CFB,A_DOCSIS,A_DES,A_DES3,A_DOCSISDES,A_GCM,A_CCM,A_CHACHA,A_CHAPOLY,A_ZUC,A_ZUC256,A_SNOW3G,A_KASUMI,A_SNOWV,A_SM4CTR,A_HSHA1,A_HSHA256,A_HSHA512,A_HMD5,A_XCBC,A_CMAC,A_SHA1,A_SHA512,A_POLY,A_CRC32,A_ZUCEIA,A_S3UIA,A_KF9,A_GMAC,A_SM3,A_N};
static const char*AN[]={"cbc","ctr12","ctr16","ecb","cfb","docsis","des","des3","docsis-des","gcm","ccm","chacha","chacha-poly","zuc","zuc256","snow3g","kasumi","snow-v","sm4-ctr","hmac-sha1","hmac-sha256","hmac-sha512","hmac-md5","xcbc","cmac","sha1","sha512","poly1305","crc32","zuc-eia3","snow3g-uia2","kasumi-f9","gmac","sm3"};
static int valid_len(int a,int len){ switch(a){case A_CBC:case A_ECB:case A_CFB: return len%16==0; case A_DES:case A_DES3: return len%8==0; case A_KF9: return len>=9; default: return 1;} }
static int build(IMB_MGR*m,IMB_JOB*j,int a,int dir,int len,int place){ /* place: 0 src end-flush, 1 dst end-flush, 2 src start-flush, 3 tag/iv/aad end-flush */
  memset(j,0,sizeof *j); j->chain_order= dir?IMB_ORDER_CIPHER_HASH:IMB_ORDER_HASH_CIPHER; j->cipher_direction=dir?IMB_DIR_ENCRYPT:IMB_DIR_DECRYPT; j->cipher_mode=IMB_CIPHER_NULL; j->hash_alg=IMB_AUTH_NULL;
  uint8_t*src= place==0? R_src+NP*4096-len : place==2? R_src : R_src+4096+3; uint8_t*dst= place==1? R_dst+NP*4096-len : R_dst+4096+5; 
  int ivl=16, tagl=16; j->src=src; j->dst=dst; j->enc_keys=ek; j->dec_keys=dk; j->key_len_in_bytes=16; j->msg_len_to_cipher_in_bytes=len; j->msg_len_to_hash_in_bytes=len;
  int hash=0;
  switch(a){
  case A_CBC: j->cipher_mode=IMB_CIPHER_CBC; break; case A_CTR: j->cipher_mode=IMB_CIPHER_CNTR; ivl=12; break; case A_CTR16: j->cipher_mode=IMB_CIPHER_CNTR; break; case A_ECB: j->cipher_mode=IMB_CIPHER_ECB; break; case A_CFB: j->cipher_mode=IMB_CIPHER_CFB; j->dec_keys=ek; break;
  case A_DOCSIS: j->cipher_mode=IMB_CIPHER_DOCSIS_SEC_BPI; break; case A_DES: j->cipher_mode=IMB_CIPHER_DES; j->enc_keys=dks; j->dec_keys=dks; j->key_len_in_bytes=8; ivl=8; break;
  case A_DES3: j->cipher_mode=IMB_CIPHER_DES3; j->enc_keys=ks3; j->dec_keys=ks3; j->key_len_in_bytes=24; ivl=8; break; case A_DOCSISDES: j->cipher_mode=IMB_CIPHER_DOCSIS_DES; j->enc_keys=dks; j->dec_keys=dks; j->key_len_in_bytes=8; ivl=8; break;
  case A_GCM: j->cipher_mode=IMB_CIPHER_GCM; j->hash_alg=IMB_AUTH_AES_GMAC; j->enc_keys=&gk; j->dec_keys=&gk; ivl=12; j->u.GCM.aad=R_aad+NP*4096-13; j->u.GCM.aad_len_in_bytes=13; hash=1; break;
  case A_CCM: j->cipher_mode=IMB_CIPHER_CCM; j->hash_alg=IMB_AUTH_AES_CCM; ivl=13; tagl=8; j->u.CCM.aad=R_aad+NP*4096-13; j->u.CCM.aad_len_in_bytes=13; hash=1; break;
  case A_CHACHA: j->cipher_mode=IMB_CIPHER_CHACHA20; j->enc_keys=key; j->dec_keys=key; j->key_len_in_bytes=32; ivl=12; break;
  case A_CHAPOLY: j->cipher_mode=IMB_CIPHER_CHACHA20_POLY1305; j->hash_alg=IMB_AUTH_CHACHA20_POLY1305; j->enc_keys=key; j->dec_keys=key; j->key_len_in_bytes=32; ivl=12; j->u.CHACHA20_POLY1305.aad=R_aad+NP*4096-13; j->u.CHACHA20_POLY1305.aad_len_in_bytes=13; hash=1; break;
  case A_ZUC: j->cipher_mode=IMB_CIPHER_ZUC_EEA3; j->enc_keys=key; break; case A_ZUC256: j->cipher_mode=IMB_CIPHER_ZUC_EEA3; j->enc_keys=key; j->key_len_in_bytes=32; ivl=25; break;
  case A_SNOW3G: j->cipher_mode=IMB_CIPHER_SNOW3G_UEA2_BITLEN; j->enc_keys=&sks; j->msg_len_to_cipher_in_bits=len*8; break; case A_KASUMI: j->cipher_mode=IMB_CIPHER_KASUMI_UEA1_BITLEN; j->enc_keys=&kks8; ivl=8; j->msg_len_to_cipher_in_bits=len*8; break;
  case A_SNOWV: j->cipher_mode=IMB_CIPHER_SNOW_V; j->enc_keys=key; j->key_len_in_bytes=32; break; case A_SM4CTR: j->cipher_mode=IMB_CIPHER_SM4_CNTR; break;
  case A_HSHA1: j->hash_alg=IMB_AUTH_HMAC_SHA_1; tagl=12; goto hmac; case A_HSHA256: j->hash_alg=IMB_AUTH_HMAC_SHA_256; tagl=16; goto hmac; case A_HSHA512: j->hash_alg=IMB_AUTH_HMAC_SHA_512; tagl=32; goto hmac; case A_HMD5: j->hash_alg=IMB_AUTH_MD5; tagl=12;
  hmac: j->u.HMAC._hashed_auth_key_xor_ipad=ipad; j->u.HMAC._hashed_auth_key_xor_opad=opad; hash=1; break;
  case A_XCBC: j->hash_alg=IMB_AUTH_AES_XCBC; j->u.XCBC._k1_expanded=k1e; j->u.XCBC._k2=k2; j->u.XCBC._k3=k3; tagl=12; hash=1; break;
  case A_CMAC: j->hash_alg=IMB_AUTH_AES_CMAC; j->u.CMAC._key_expanded=ek; j->u.CMAC._skey1=sk1; j->u.CMAC._skey2=sk2; tagl=16; hash=1; break;
  case A_SHA1: j->hash_alg=IMB_AUTH_SHA_1; tagl=20; hash=1; break; case A_SHA512: j->hash_alg=IMB_AUTH_SHA_512; tagl=64; hash=1; break;
  case A_POLY: j->hash_alg=IMB_AUTH_POLY1305; j->u.POLY1305._key=key; hash=1; break; case A_CRC32: j->hash_alg=IMB_AUTH_CRC32_ETHERNET_FCS; tagl=4; hash=1; break;
  case A_ZUCEIA: j->hash_alg=IMB_AUTH_ZUC_EIA3_BITLEN; j->u.ZUC_EIA3._key=key; j->u.ZUC_EIA3._iv=R_iv+NP*4096-16; j->msg_len_to_hash_in_bits=len*8; tagl=4; hash=1; break;
  case A_S3UIA: j->hash_alg=IMB_AUTH_SNOW3G_UIA2_BITLEN; j->u.SNOW3G_UIA2._key=&sks; j->u.SNOW3G_UIA2._iv=R_iv+NP*4096-16; j->msg_len_to_hash_in_bits=len*8; tagl=4; hash=1; break;
  case A_KF9: j->hash_alg=IMB_AUTH_KASUMI_UIA1; j->u.KASUMI_UIA1._key=&kks9; tagl=4; hash=1; break;
  case A_GMAC: j->hash_alg=IMB_AUTH_AES_GMAC_128; j->u.GMAC._key=&gk; j->u.GMAC._iv=R_iv+NP*4096-12; j->u.GMAC.iv_len_in_bytes=12; hash=1; break;
  case A_SM3: j->hash_alg=IMB_AUTH_SM3; tagl=32; hash=1; break; }
  j->iv=R_iv+NP*4096-ivl; j->iv_len_in_bytes=ivl; if(hash){ j->auth_tag_output=R_tag+NP*4096-tagl; j->auth_tag_output_len_in_bytes=tagl; }
  return 0; }

#include <stddef.h>
static const struct {const char*n; size_t off,sz;} F[]={
#define FF(x) {#x,offsetof(IMB_JOB,x),sizeof(((IMB_JOB*)0)->x)}
 FF(enc_keys),FF(dec_keys),FF(key_len_in_bytes),FF(src),FF(dst),FF(cipher_start_src_offset_in_bytes),FF(msg_len_to_cipher_in_bytes),FF(hash_start_src_offset_in_bytes),FF(msg_len_to_hash_in_bytes),FF(iv),FF(iv_len_in_bytes),FF(auth_tag_output),FF(auth_tag_output_len_in_bytes),FF(u),FF(status),FF(cipher_mode),FF(cipher_direction),FF(hash_alg),FF(chain_order),FF(user_data),FF(user_data2),FF(cipher_func),FF(hash_func),FF(sgl_state),FF(cipher_fields),FF(suite_id),FF(session_id)};
int main(void){ R_src=mkregion(); R_dst=mkregion(); R_iv=mkregion(); R_tag=mkregion(); R_aad=mkregion(); for(int i=0;i<NP*4096;i++) R_src[i]=i*31+7;
  long total=0; static char seen[64][A_N][32]; 
  for(int v=0;v<7;v++){ IMB_MGR*m=alloc_mb_mgr(V[v].fl); V[v].f(m);
    IMB_AES_KEYEXP_128(m,key,ek,dk); IMB_DES_KEYSCHED(m,dks,key); ks3[0]=ks3[1]=ks3[2]=dks; IMB_AES_CMAC_SUBKEY_GEN_128(m,ek,sk1,sk2); IMB_AES_XCBC_KEYEXP(m,key,k1e,k2,k3); IMB_AES128_GCM_PRE(m,key,&gk); IMB_SNOW3G_INIT_KEY_SCHED(m,key,&sks); IMB_KASUMI_INIT_F8_KEY_SCHED(m,key,&kks8); IMB_KASUMI_INIT_F9_KEY_SCHED(m,key,&kks9); imb_hmac_ipad_opad(m,IMB_AUTH_HMAC_SHA_1,key,16,ipad,opad);
    for(int a=0;a<A_N;a++) for(int dir=0;dir<2;dir++){ if(a>=A_HSHA1&&dir==0) continue; for(int len=16;len<=80;len+=8){ if(!valid_len(a,len)) continue;
        IMB_JOB snap[3]; IMB_JOB*jp[3]; for(int k=0;k<3;k++){ IMB_JOB*j=IMB_GET_NEXT_JOB(m); build(m,j,a,dir,len+ (valid_len(a,len+16*k)?16*k:0),3); j->user_data=(void*)(long)(0x1234+k); j->user_data2=(void*)(long)(0x5678+k); imb_set_session(m,j); snap[k]=*j; jp[k]=j; IMB_SUBMIT_JOB(m); } while(IMB_FLUSH_JOB(m)); total+=3;
        for(int k=0;k<3;k++) for(unsigned f=0;f<sizeof F/sizeof F[0];f++) if(memcmp((uint8_t*)&snap[k]+F[f].off,(uint8_t*)jp[k]+F[f].off,F[f].sz)){ if(!strcmp(F[f].n,"status")) continue; if(!seen[f][a][v]){ seen[f][a][v]=1; printf("%-10s %-12s %s: field '%s' changed\n",V[v].n,AN[a],dir?"enc":"dec",F[f].n); } } } }
    free_mb_mgr(m); }
  printf("jobs checked=%ld\n",total); return 0; }
