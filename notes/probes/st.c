#include <stdio.h>
#include <string.h>
#include <stdlib.h>
#include <intel-ipsec-mb.h>
static int target=-1, cur=-1, nstart, npass, nfail, failed_idx[64], nf, ncorrupt; static char names[64][32];
static int cb(void*arg,const IMB_SELF_TEST_CALLBACK_DATA*d){ if(!strcmp(d->phase,"START")){cur++;nstart++; snprintf(names[cur],32,"%s",d->descr);} else if(!strcmp(d->phase,"PASS")) npass++; else if(!strcmp(d->phase,"FAIL")){nfail++; failed_idx[nf++]=cur;} else if(!strcmp(d->phase,"CORRUPT")){ ncorrupt++; if(cur==target) return 0; } return 1; }
int main(void){ int bad=0;
  for(target=-1; target<40; target++){ cur=-1;nstart=npass=nfail=nf=ncorrupt=0; IMB_MGR*m=alloc_mb_mgr(0); imb_self_test_set_cb(m,cb,0); init_mb_mgr_avx512(m);
    int pass=!!(m->features&IMB_FEATURE_SELF_TEST_PASS); int e=imb_get_errno(m);
    if(target==-1){ printf("no corruption: start=%d pass=%d fail=%d corrupt_cb=%d featpass=%d errno=%d\n",nstart,npass,nfail,ncorrupt,pass,e); for(int i=0;i<nstart;i++) printf("%s ",names[i]); printf("\n"); }
    else if(target<nstart){ int ok = nfail==1 && failed_idx[0]==target && !pass && e==IMB_ERR_SELFTEST; if(!ok){bad++; printf("target %d (%s): nfail=%d first=%d featpass=%d errno=%d\n",target,names[target],nfail,nf?failed_idx[0]:-1,pass,e);} }
    free_mb_mgr(m); if(target>=0 && target>=nstart-1 && nstart) break; }
  printf("singles checked, anomalies=%d\n",bad); return 0; }
