#define _GNU_SOURCE
#include <stdio.h>
#include <string.h>
#include <stdlib.h>
#include <signal.h>
#include <setjmp.h>
#include <sys/mman.h>
#include <intel-ipsec-mb.h>
typedef void (*initfn)(IMB_MGR*);
static struct {const char*n; initfn f; uint64_t fl;} V[]={ {"sse_t1",init_mb_mgr_sse,IMB_FLAG_SHANI_OFF},{"sse_t2",init_mb_mgr_sse,IMB_FLAG_GFNI_OFF},{"sse_t3",init_mb_mgr_sse,0},{"avx2_t1",init_mb_mgr_avx2,IMB_FLAG_SHANI_OFF},{"avx2_t2",init_mb_mgr_avx2,0},{"avx512_t1",init_mb_mgr_avx512,IMB_FLAG_SHANI_OFF},{"avx512_t2",init_mb_mgr_avx512,0}};
static sigjmp_buf jb; static volatile uintptr_t fault_addr;
static void segv(int s,siginfo_t*si,void*u){ fault_addr=(uintptr_t)si->si_addr; siglongjmp(jb,1);} 
/* guarded region: [guard][N pages][guard] */
#define NP 20
static uint8_t* mkregion(void){ uint8_t*p=mmap(0,(NP+2)*4096,PROT_NONE,MAP_PRIVATE|MAP_ANONYMOUS,-1,0); mprotect(p+4096,NP*4096,PROT_READ|PROT_WRITE); return p+4096; }
static uint8_t *R_src,*R_dst,*R_iv,*R_tag,*R_aad;
static uint8_t key[32]={1,2,3,4,5,6,7,8,9}; 
static uint32_t ek[60] __attribute__((aligned(16))), dk[60] __attribute__((aligned(16))); static uint64_t dks[16]; static const void*ks3[3]; static uint32_t sk1[4],sk2[4],k1e[44] __attribute__((aligned(16))); static uint8_t k2[16] __attribute__((aligned(16))),k3[16] __attribute__((aligned(16)));
static uint8_t ipad[64] __attribute__((aligned(16))), opad[64] __attribute__((aligned(16))); static struct gcm_key_data gk; static snow3g_key_schedule_t sks; static kasumi_key_sched_t kks8,kks9;
enum {A_CBC,A_CTR,A_CTR16,A_ECB,A_CFB,A_DOCSIS,A_DES,A_DES3,A_DOCSISDES,A_GCM,A_CCM,A_CHACHA,A_CHAPOLY,A_ZUC,A_ZUC256,A_SNOW3G,A_KASUMI,A_SNOWV,A_SM4CTR,A_HSHA1,A_HSHA256,A_HSHA512,A_HMD5,A_XCBC,A_CMAC,A_SHA1,A_SHA512,A_POLY,A_CRC32,A_ZUCEIA,A_S3UIA,A_KF9,A_GMAC,A_SM3,A_N};
static const char*AN[]={"cbc","ctr12","ctr16","ecb","cfb","docsis","des","des3","docsis-des","gcm","ccm","chacha","chacha-poly","zuc","zuc256","snow3g","kasumi","snow-v","sm4-ctr","hmac-sha1","hmac-sha256","hmac-sha512","hmac-md5","xcbc","cmac","sha1","sha512","poly1305","crc32","zuc-eia3","snow3g-uia2","kasumi-f9","gmac","sm3"};
static int valid_len(int a,int len){ switch(a){case A_CBC:case A_ECB:case A_CFB: return len%16==0; case A_DES:case A_DES3: return len%8==0; case A_KF9: return len>=9; default: return 1;} }
static int build(IMB_MGR*m,IMB_JOB*j,int a,int dir,int len,int place){ /* place: 0 src end-flush, 1 dst end-flush, 2 src start-flush, 3 tag/iv/aad end-flush */
  memset(j,0,sizeof *j); j->chain_order= dir?IMB_ORDER_CIPHER_HASH:IMB_ORDER_HASH_CIPHER; j->cipher_direction=dir?IMB_DIR_ENCRYPT:IMB_DIR_DECRYPT; j->cipher_mode=IMB_CIPHER_NULL; j->hash_alg=IMB_AUTH_NULL;
  uint8_t*src= place==0? R_src+NP*4096-len : place==2? R_src : R_src+4096+3; uint8_t*dst= place==1? R_dst+NP*4096-len : R_dst+4096+5; 
  int ivl=16, tagl=16; j->src=src; j->dst=dst; j->enc_keys=ek; j->dec_keys=dk; j->key_len_in_bytes=16; j->msg_len_to_cipher_in_bytes=len; j->msg_len_to_hash_in_bytes=len;
  int hash=0;
  switch(a){
  case A_CBC: j->cipher_mode=IMB_CIPHER_CBC; break; case A_CTR: j->cipher_mode=IMB_CIPHER_CNTR; ivl=12; break; case A_CTR16: j->cipher_mode=IMB_CIPHER_CNTR; break; case A_ECB: j->cipher_mode=IMB_CIPHER_ECB; break; case A_CFB: j->cipher_mode=IMB_CIPHER_CFB; j->dec_keys=ek; break;
  case A_DOCSIS: j->cipher_mode=IMB_CIPHER_DOCSIS_SEC_BPI; break; case A_DES: j->cipher_mode=IMB_CIPHER_DES; j->enc_keys=dks; j->dec_keys=dks; j->key_len_in_bytes=8; ivl=8; break;
  case A_DES3: j->cipher_mode=IMB_CIPHER_DES3; j->enc_keys=ks3; j->dec_keys=ks3; j->key_len_in_bytes=24; ivl=8; break; case A_DOCSISDES: j->cipher_mode=IMB_CIPHER_DOCSIS_DES; j->enc_keys=dks; j->dec_keys=dks; j->key_len_in_bytes=8; ivl=8; break;
  case A_GCM: j->cipher_mode=IMB_CIPHER_GCM; j->hash_alg=IMB_AUTH_AES_GMAC; j->enc_keys=&gk; j->dec_keys=&gk; ivl=12; j->u.GCM.aad=R_aad+NP*4096-13; j->u.GCM.aad_len_in_bytes=13; hash=1; break;
  case A_CCM: j->cipher_mode=IMB_CIPHER_CCM; j->hash_alg=IMB_AUTH_AES_CCM; ivl=13; tagl=8; j->u.CCM.aad=R_aad+NP*4096-13; j->u.CCM.aad_len_in_bytes=13; hash=1; break;
  case A_CHACHA: j->cipher_mode=IMB_CIPHER_CHACHA20; j->enc_keys=key; j->dec_keys=key; j->key_len_in_bytes=32; ivl=12; break;
  case A_CHAPOLY: j->cipher_mode=IMB_CIPHER_CHACHA20_POLY1305; j->hash_alg=IMB_AUTH_CHACHA20_POLY1305; j->enc_keys=key; j->dec_keys=key; j->key_len_in_bytes=32; ivl=12; j->u.CHACHA20_POLY1305.aad=R_aad+NP*4096-13; j->u.CHACHA20_POLY1305.aad_len_in_bytes=13; hash=1; break;
  case A_ZUC: j->cipher_mode=IMB_CIPHER_ZUC_EEA3; j->enc_keys=key; break; case A_ZUC256: j->cipher_mode=IMB_CIPHER_ZUC_EEA3; j->enc_keys=key; j->key_len_in_bytes=32; ivl=25; break;
  case A_SNOW3G: j->cipher_mode=IMB_CIPHER_SNOW3G_UEA2_BITLEN; j->enc_keys=&sks; j->msg_len_to_cipher_in_bits=len*8; break; case A_KASUMI: j->cipher_mode=IMB_CIPHER_KASUMI_UEA1_BITLEN; j->enc_keys=&kks8; ivl=8; j->msg_len_to_cipher_in_bits=len*8; break;
  case A_SNOWV: j->cipher_mode=IMB_CIPHER_SNOW_V; j->enc_keys=key; j->key_len_in_bytes=32; break; case A_SM4CTR: j->cipher_mode=IMB_CIPHER_SM4_CNTR; break;
  case A_HSHA1: j->hash_alg=IMB_AUTH_HMAC_SHA_1; tagl=12; goto hmac; case A_HSHA256: j->hash_alg=IMB_AUTH_HMAC_SHA_256; tagl=16; goto hmac; case A_HSHA512: j->hash_alg=IMB_AUTH_HMAC_SHA_512; tagl=32; goto hmac; case A_HMD5: j->hash_alg=IMB_AUTH_MD5; tagl=12;
  hmac: j->u.HMAC._hashed_auth_key_xor_ipad=ipad; j->u.HMAC._hashed_auth_key_xor_opad=opad; hash=1; break;
  case A_XCBC: j->hash_alg=IMB_AUTH_AES_XCBC; j->u.XCBC._k1_expanded=k1e; j->u.XCBC._k2=k2; j->u.XCBC._k3=k3; tagl=12; hash=1; break;
  case A_CMAC: j->hash_alg=IMB_AUTH_AES_CMAC; j->u.CMAC._key_expanded=ek; j->u.CMAC._skey1=sk1; j->u.CMAC._skey2=sk2; tagl=16; hash=1; break;
  case A_SHA1: j->hash_alg=IMB_AUTH_SHA_1; tagl=20; hash=1; break; case A_SHA512: j->hash_alg=IMB_AUTH_SHA_512; tagl=64; hash=1; break;
  case A_POLY: j->hash_alg=IMB_AUTH_POLY1305; j->u.POLY1305._key=key; hash=1; break; case A_CRC32: j->hash_alg=IMB_AUTH_CRC32_ETHERNET_FCS; tagl=4; hash=1; break;
  case A_ZUCEIA: j->hash_alg=IMB_AUTH_ZUC_EIA3_BITLEN; j->u.ZUC_EIA3._key=key; j->u.ZUC_EIA3._iv=R_iv+NP*4096-16; j->msg_len_to_hash_in_bits=len*8; tagl=4; hash=1; break;
  case A_S3UIA: j->hash_alg=IMB_AUTH_SNOW3G_UIA2_BITLEN; j->u.SNOW3G_UIA2._key=&sks; j->u.SNOW3G_UIA2._iv=R_iv+NP*4096-16; j->msg_len_to_hash_in_bits=len*8; tagl=4; hash=1; break;
  case A_KF9: j->hash_alg=IMB_AUTH_KASUMI_UIA1; j->u.KASUMI_UIA1._key=&kks9; tagl=4; hash=1; break;
  case A_GMAC: j->hash_alg=IMB_AUTH_AES_GMAC_128; j->u.GMAC._key=&gk; j->u.GMAC._iv=R_iv+NP*4096-12; j->u.GMAC.iv_len_in_bytes=12; hash=1; break;
  case A_SM3: j->hash_alg=IMB_AUTH_SM3; tagl=32; hash=1; break; }
  j->iv=R_iv+NP*4096-ivl; j->iv_len_in_bytes=ivl; if(hash){ j->auth_tag_output=R_tag+NP*4096-tagl; j->auth_tag_output_len_in_bytes=tagl; }
  return 0; }

#include <unistd.h>
#include <sys/wait.h>
#include <stddef.h>
enum {M_SRC,M_DST,M_IV,M_EK,M_DK,M_TAG,M_U0,M_U1,M_U2,M_CLEN0,M_CLEN_BIG,M_CLEN_ODD,M_HLEN0,M_HLEN_BIG,M_IVL_P,M_IVL_M,M_TAGL_P,M_TAGL_M,M_TAGL0,M_KL0,M_KL8,M_KL16,M_KL24,M_KL32,M_KL40,M_DIR0,M_DIR3,M_ORD0,M_ORD3,M_N};
static const char*MN[]={"src=NULL","dst=NULL","iv=NULL","enc_keys=NULL","dec_keys=NULL","tag=NULL","u.ptr0=NULL","u.ptr1=NULL","u.ptr2=NULL","cipher_len=0","cipher_len=65535+","cipher_len+1","hash_len=0","hash_len=65535+","iv_len+1","iv_len-1","tag_len+1","tag_len-1","tag_len=0","key_len=0","key_len=8","key_len=16","key_len=24","key_len=32","key_len=40","dir=0","dir=3","order=0","order=3"};
static void mutate(IMB_JOB*j,int mu){ void**u=(void**)&j->u; switch(mu){ case M_SRC:j->src=NULL;break; case M_DST:j->dst=NULL;break; case M_IV:j->iv=NULL;break; case M_EK:j->enc_keys=NULL;break; case M_DK:j->dec_keys=NULL;break; case M_TAG:j->auth_tag_output=NULL;break; case M_U0:u[0]=NULL;break; case M_U1:u[1]=NULL;break; case M_U2:u[2]=NULL;break;
  case M_CLEN0:j->msg_len_to_cipher_in_bytes=0;break; case M_CLEN_BIG:j->msg_len_to_cipher_in_bytes=65536;break; case M_CLEN_ODD:j->msg_len_to_cipher_in_bytes+=1;break; case M_HLEN0:j->msg_len_to_hash_in_bytes=0;break; case M_HLEN_BIG:j->msg_len_to_hash_in_bytes=65535;break;
  case M_IVL_P:j->iv_len_in_bytes++;break; case M_IVL_M:j->iv_len_in_bytes--;break; case M_TAGL_P:j->auth_tag_output_len_in_bytes++;break; case M_TAGL_M:j->auth_tag_output_len_in_bytes--;break; case M_TAGL0:j->auth_tag_output_len_in_bytes=0;break;
  case M_KL0:j->key_len_in_bytes=0;break; case M_KL8:j->key_len_in_bytes=8;break; case M_KL16:j->key_len_in_bytes=16;break; case M_KL24:j->key_len_in_bytes=24;break; case M_KL32:j->key_len_in_bytes=32;break; case M_KL40:j->key_len_in_bytes=40;break; case M_DIR0:j->cipher_direction=0;break; case M_DIR3:j->cipher_direction=3;break; case M_ORD0:j->chain_order=0;break; case M_ORD3:j->chain_order=3;break; } }
int main(int argc,char**argv){ R_src=mkregion(); R_dst=mkregion(); R_iv=mkregion(); R_tag=mkregion(); R_aad=mkregion(); for(int i=0;i<NP*4096;i++) R_src[i]=i*31+7; memset(R_dst,0x5A,NP*4096); memset(R_tag,0x5A,NP*4096);
  int vs[]={2,6}; long acc=0,rej=0,crash=0,touched=0,hang=0;
  for(int vi=0;vi<2;vi++){ int v=vs[vi]; for(int a=0;a<A_N;a++) for(int dir=0;dir<2;dir++){ if(a>=A_HSHA1&&dir==0) continue; for(int mu=0;mu<M_N;mu++){ int len=64;
      fflush(stdout); pid_t p=fork(); if(!p){ alarm(5); IMB_MGR*m=alloc_mb_mgr(V[v].fl); V[v].f(m); IMB_AES_KEYEXP_128(m,key,ek,dk); IMB_DES_KEYSCHED(m,dks,key); ks3[0]=ks3[1]=ks3[2]=dks; IMB_AES_CMAC_SUBKEY_GEN_128(m,ek,sk1,sk2); IMB_AES_XCBC_KEYEXP(m,key,k1e,k2,k3); IMB_AES128_GCM_PRE(m,key,&gk); IMB_SNOW3G_INIT_KEY_SCHED(m,key,&sks); IMB_KASUMI_INIT_F8_KEY_SCHED(m,key,&kks8); IMB_KASUMI_INIT_F9_KEY_SCHED(m,key,&kks9); imb_hmac_ipad_opad(m,IMB_AUTH_HMAC_SHA_1,key,16,ipad,opad);
        IMB_JOB*j=IMB_GET_NEXT_JOB(m); build(m,j,a,dir,len,3); IMB_JOB before=*j; mutate(j,mu); if(!memcmp(&before,j,sizeof before)) _exit(9); /* mutation no-op */
        IMB_JOB*r=IMB_SUBMIT_JOB(m); int e=imb_get_errno(m); if(!r&&!e) r=IMB_FLUSH_JOB(m); if(!r) _exit(e?5:6);
        if(r->status==IMB_STATUS_INVALID_ARGS){ int t=0; for(int i=0;i<NP*4096;i++) if(R_dst[i]!=0x5A||R_tag[i]!=0x5A){t=1;break;} _exit(t?3:(e?1:4)); }
        _exit(r->status==IMB_STATUS_COMPLETED?0:2); }
      int st; waitpid(p,&st,0); const char*res=NULL; if(WIFSIGNALED(st)){ if(WTERMSIG(st)==SIGALRM){hang++;res="HANG";} else {crash++;res="CRASH";} } else { int x=WEXITSTATUS(st); if(x==0) acc++; else if(x==1) rej++; else if(x==9) {} else if(x==3){touched++;res="REJECTED-BUT-BUFFERS-TOUCHED";} else if(x==4) res="REJECTED-WITH-ERRNO-0"; else if(x==5) res="NULL-RETURN-WITH-ERRNO"; else if(x==6) res="NOT-RETURNED"; else res="ODD-STATUS"; }
      if(res) printf("%-28s %-9s %-12s %s %s\n",res,V[v].n,AN[a],dir?"enc":"dec",MN[mu]); } } }
  printf("accepted=%ld rejected=%ld crash=%ld hang=%ld touched=%ld\n",acc,rej,crash,hang,touched); return 0; }
