#define _GNU_SOURCE
#include <stdio.h>
#include <stdlib.h>
#include <string.h>
#include <time.h>
#include <stddef.h>
#include <intel-ipsec-mb.h>
#include "include/ipsec_ooo_mgr.h"
static double now(void){struct timespec t;clock_gettime(CLOCK_MONOTONIC,&t);return t.tv_sec+t.tv_nsec*1e-9;}
#define RING IMB_MAX_JOBS
static IMB_MGR *m; static size_t msz;
static uint8_t key[16]={1}, iv[16]={2}, src[512], ipad[64] __attribute__((aligned(16))), opad[64] __attribute__((aligned(16)));
static uint32_t ek[60] __attribute__((aligned(16))), dk[60] __attribute__((aligned(16)));
static uint8_t dst[RING][512], tag[RING][64];
enum {K_I,K_PS,K_PL,K_X,K_P8,NK};
static void fill(IMB_JOB*j,int kind,int slot){ memset(j,0,sizeof *j); j->chain_order=IMB_ORDER_CIPHER_HASH; j->cipher_direction=IMB_DIR_ENCRYPT; j->cipher_mode=IMB_CIPHER_NULL; j->hash_alg=IMB_AUTH_NULL; j->user_data=(void*)(long)kind; j->src=src;
  if(kind==K_PS||kind==K_PL){ j->hash_alg=IMB_AUTH_HMAC_SHA_512; j->msg_len_to_hash_in_bytes= kind==K_PS?40:300; j->auth_tag_output=tag[slot]; j->auth_tag_output_len_in_bytes=32; j->u.HMAC._hashed_auth_key_xor_ipad=ipad; j->u.HMAC._hashed_auth_key_xor_opad=opad; }
  if(kind==K_X||kind==K_P8){ j->cipher_mode=IMB_CIPHER_CBC; j->dst=dst[slot]; j->enc_keys=ek; j->dec_keys=dk; j->key_len_in_bytes=16; j->iv=iv; j->iv_len_in_bytes=16; j->msg_len_to_cipher_in_bytes= kind==K_X?0:32; } }
/* state = manager bytes + ref(head,count) ; snapshot store */
typedef struct { uint8_t *snap; int head,count; int depth; } st_t;
static uint64_t fnv(const void*p,size_t n,uint64_t h){const uint8_t*b=p;for(size_t i=0;i<n;i++){h^=b[i];h*=1099511628211ULL;}return h;}
static uint64_t canon(int head,int count){ uint64_t h=1469598103934665603ULL; h=fnv(&m->earliest_job,4,h); h=fnv(&m->next_job,4,h);
  for(int i=0;i<count;i++){ IMB_JOB*j=&m->jobs[(head+i)%RING]; long k=(long)j->user_data; h=fnv(&k,1,h); h=fnv(&j->status,4,h);} 
  h=fnv(m->hmac_sha_512_ooo,offsetof(MB_MGR_HMAC_SHA_512_OOO,road_block),h); h=fnv(m->aes128_ooo,offsetof(MB_MGR_AES_OOO,road_block),h); return h; }
/* open addressing set */
static long viol_seed; static uint64_t *set; static size_t cap=1<<26, cnt;
static int ins(uint64_t k){ if(!k)k=1; size_t i=k&(cap-1); while(set[i]){ if(set[i]==k) return 0; i=(i+1)&(cap-1);} set[i]=k; cnt++; return 1; }
int main(int argc,char**argv){
  int maxdepth= argc>1?atoi(argv[1]):1000; int usep8 = argc>2?atoi(argv[2]):1;
  m=alloc_mb_mgr(IMB_FLAG_SHANI_OFF); init_mb_mgr_sse(m); msz=imb_get_mb_mgr_size(); printf("ring=%d mgr=%zu arch=%u/%u errno=%d\n",RING,msz,m->used_arch,m->used_arch_type,imb_get_errno(m));
  for(int i=0;i<512;i++) src[i]=i*13+5; IMB_AES_KEYEXP_128(m,key,ek,dk); imb_hmac_ipad_opad(m,IMB_AUTH_HMAC_SHA_512,key,16,ipad,opad);
  set=calloc(cap,8); size_t qcap=1<<22, qh=0, qt=0; st_t *q=malloc(qcap*sizeof *q);
  uint8_t*pristine=malloc(msz); memcpy(pristine,m,msz);
  int rots[]={0,1,127,128,254,255}; int fills[]={0,1,2,126,127,128,129,130,253,254,255}; int nseeds=0;
  for(int ri=0;ri<6;ri++) for(int fi=0;fi<11;fi++) for(int pat=0;pat<2;pat++){ memcpy(m,pristine,msz); int head=0,count=0;
    for(int k=0;k<rots[ri];k++){ IMB_JOB*j=IMB_GET_NEXT_JOB(m); fill(j,K_I,(int)(j-m->jobs)); IMB_JOB*r=IMB_SUBMIT_JOB(m); if(!r){printf("seed rot fail\n");} }
    { IMB_JOB*j=IMB_GET_NEXT_JOB(m); head=(int)(j-m->jobs); }
    int ok=1; for(int k=0;k<fills[fi];k++){ IMB_JOB*j=IMB_GET_NEXT_JOB(m); int slot=(int)(j-m->jobs); int kind= (k==0)?K_PL: (pat? (k&1?K_PS:K_PL):K_I); fill(j,kind,slot); IMB_JOB*r=IMB_SUBMIT_JOB(m); count++; if(r){ if(r!=&m->jobs[head]){ printf("SEED VIOL order r=%d f=%d pat=%d k=%d\n",rots[ri],fills[fi],pat,k); viol_seed++; } head=(head+1)%RING; count--; } }
    if(IMB_QUEUE_SIZE(m)!=(unsigned)count){ printf("SEED VIOL qsize %u vs %d (r=%d f=%d pat=%d)\n",IMB_QUEUE_SIZE(m),count,rots[ri],fills[fi],pat); viol_seed++; }
    (void)ok; if(ins(canon(head,count))){ q[qt].snap=malloc(msz); memcpy(q[qt].snap,m,msz); q[qt].head=head;q[qt].count=count;q[qt].depth=0; qt++; nseeds++; } }
  printf("seeds=%d\n",nseeds);
  size_t trans=0, viol=0; int maxd=0; double t0=now(); int nops=NK+2;
  while(qh<qt){ st_t s=q[qh++]; if(s.depth>maxd) maxd=s.depth;
    if(s.depth<maxdepth) for(int op=0;op<nops;op++){ if(op==K_P8&&!usep8) continue;
      memcpy(m,s.snap,msz); int head=s.head,count=s.count; IMB_JOB*r=NULL; trans++;
      if(op<NK){ IMB_JOB*j=IMB_GET_NEXT_JOB(m); int slot=(int)(j-m->jobs);
        for(int i=0;i<count;i++) if(slot==(head+i)%RING){ printf("VIOL: next slot in use\n"); viol++; }
        if(count==0) head=slot;
        fill(j,op,slot); r=IMB_SUBMIT_JOB(m); count++;
        if(count==RING && !r){ printf("VIOL: full and no return\n"); viol++; }
      } else if(op==NK){ r=IMB_FLUSH_JOB(m); if((r==NULL)!=(count==0)){printf("VIOL: flush null mismatch count=%d\n",count);viol++;} }
      else { r=IMB_GET_COMPLETED_JOB(m); if(!r&&count&&m->jobs[head].status>=IMB_STATUS_COMPLETED){printf("VIOL: get_completed missed\n");viol++;} }
      if(r){ if(r!=&m->jobs[head]){printf("VIOL: out of order: got slot %ld exp %d (op %d depth %d)\n",(long)(r-m->jobs),head,op,s.depth);viol++;}
        if(r->status!=IMB_STATUS_COMPLETED && !((long)r->user_data==K_X&&r->status==IMB_STATUS_INVALID_ARGS)){printf("VIOL: status %d kind %ld\n",r->status,(long)r->user_data);viol++;}
        head=(head+1)%RING; count--; }
      if(IMB_QUEUE_SIZE(m)!=(unsigned)count){printf("VIOL: qsize %u vs %d\n",IMB_QUEUE_SIZE(m),count);viol++;}
      if(viol>20) goto out;
      if(ins(canon(head,count))){ if(qt==qcap){qcap*=2;q=realloc(q,qcap*sizeof *q);} q[qt].snap=malloc(msz); memcpy(q[qt].snap,m,msz); q[qt].head=head;q[qt].count=count;q[qt].depth=s.depth+1; qt++; }
    }
    free(s.snap);
    if((qh&0xffff)==0) fprintf(stderr,"states=%zu frontier=%zu depth=%d trans=%zu %.0fs\n",cnt,qt-qh,s.depth,trans,now()-t0);
  }
out: printf("DONE states=%zu transitions=%zu maxdepth=%d viol=%zu time=%.1fs (%.1f us/trans)\n",cnt,trans,maxd,viol,now()-t0,(now()-t0)*1e6/trans); return 0; }
