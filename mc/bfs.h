/* Explicit-state breadth-first search whose transition relation is the real library (DESIGN.md 3.5, M-state).
 * Level-synchronous; with nworkers > 1 every level is expanded by forked workers that share the frontier,
 * the visited set and the counters through MAP_SHARED memory (all processes are forked after the manager was
 * allocated, so snapshots - which contain absolute self-pointers - restore to the same address everywhere). */
#ifndef VERIF_BFS_H
#define VERIF_BFS_H
#include "common.h"

#define BFS_MAXPATH 120
typedef struct {
        size_t snap_size;                 /* bytes per snapshot */
        void (*save)(uint8_t *dst);       /* current live state -> snapshot */
        void (*restore)(const uint8_t *); /* snapshot -> live state */
        int nops;
        /* apply op on the live state. return 0: op not enabled here (no transition), 1: transition taken.
         * Invariant violations are reported by the model through rec_*; it may call bfs_path_str(). */
        int (*apply)(int op);
        uint64_t (*key)(void); /* canonical key of the live state */
        const char *(*opname)(int op);
        int maxdepth;         /* <0: run to fixpoint */
        int nworkers;         /* 1: in-process */
        size_t max_states;    /* visited-set capacity (power of two chosen >= 2*max_states) */
        size_t max_frontier;  /* max snapshots held per level */
        int selfcheck_n;      /* re-expand up to this many merged duplicates at the end (fixpoint runs) */
} bfs_model;

typedef struct {
        long long states, transitions, dups, maxdepth, frontier_peak;
        long long selfcheck_merged, selfcheck_reexpanded, selfcheck_divergences;
        int fixpoint; /* 1 if the search ended because no new state appeared */
        int capped;   /* capacity, depth limit (when fixpoint was requested) or deadline cut it short */
        int crashed;  /* a worker died; *crash_path holds the path */
        char crash_path[BFS_MAXPATH * 6 + 64];
} bfs_result;

/* Starts from the current live state. */
void bfs_run(const bfs_model *m, bfs_result *r);
/* path (op names) leading to the state being expanded + the op being applied; valid inside apply() */
const char *bfs_path_str(void);
int bfs_depth(void);
#endif
