#include "common.h"
#include <stdarg.h>
#include <unistd.h>
#include <fcntl.h>
#include <errno.h>
#include <signal.h>
#include <sys/prctl.h>
#include <time.h>
#include <sys/mman.h>
#include <sys/wait.h>

const variant_t VARIANTS[NVARIANTS] = {
        { "sse_t1", init_mb_mgr_sse, IMB_FLAG_SHANI_OFF, IMB_ARCH_SSE, 1 },
        { "sse_t2", init_mb_mgr_sse, IMB_FLAG_GFNI_OFF, IMB_ARCH_SSE, 2 },
        { "sse_t3", init_mb_mgr_sse, 0, IMB_ARCH_SSE, 3 },
        { "avx2_t1", init_mb_mgr_avx2, IMB_FLAG_SHANI_OFF, IMB_ARCH_AVX2, 1 },
        { "avx2_t2", init_mb_mgr_avx2, 0, IMB_ARCH_AVX2, 2 },
        { "avx512_t1", init_mb_mgr_avx512, IMB_FLAG_SHANI_OFF, IMB_ARCH_AVX512, 1 },
        { "avx512_t2", init_mb_mgr_avx512, 0, IMB_ARCH_AVX512, 2 },
};

uint64_t verif_seed = 1;
const char *g_property = "C00", *g_tier = "quick";
static int out_fd = -1;
static double t_start, t_deadline;

double
now_s(void)
{
        struct timespec ts;
        clock_gettime(CLOCK_MONOTONIC, &ts);
        return ts.tv_sec + ts.tv_nsec * 1e-9;
}
int
deadline_reached(void)
{
        return t_deadline > 0 && now_s() > t_deadline;
}
int
tier_thorough(void)
{
        return strcmp(g_tier, "thorough") == 0;
}
int
n_workers(void)
{
        const char *e = getenv("VERIF_WORKERS");
        int n = e ? atoi(e) : (int) sysconf(_SC_NPROCESSORS_ONLN);
        if (n < 1)
                n = 1;
        if (n > 64)
                n = 64;
        return n;
}

uint64_t
sm64(uint64_t *s)
{
        uint64_t z = (*s += 0x9e3779b97f4a7c15ULL);
        z = (z ^ (z >> 30)) * 0xbf58476d1ce4e5b9ULL;
        z = (z ^ (z >> 27)) * 0x94d049bb133111ebULL;
        return z ^ (z >> 31);
}
void
fill_rand(uint8_t *p, size_t n, uint64_t seed)
{
        uint64_t s = seed * 0x2545F4914F6CDD1DULL + verif_seed;
        size_t i = 0;
        while (i < n) {
                uint64_t r = sm64(&s);
                for (int k = 0; k < 8 && i < n; k++, i++)
                        p[i] = (uint8_t) (r >> (8 * k));
        }
}
uint64_t
hash_bytes(const void *p, size_t n, uint64_t seed)
{
        const uint8_t *b = p;
        uint64_t h = 0xcbf29ce484222325ULL ^ seed;
        size_t i = 0;
        for (; i + 8 <= n; i += 8) {
                uint64_t w;
                memcpy(&w, b + i, 8);
                h = (h ^ w) * 0x100000001b3ULL;
                h ^= h >> 29;
        }
        for (; i < n; i++)
                h = (h ^ b[i]) * 0x100000001b3ULL;
        h ^= h >> 32;
        h *= 0xd6e8feb86659fd93ULL;
        h ^= h >> 32;
        return h;
}

/* ---------- variants ---------- */
static int usable_cache[NVARIANTS];
IMB_MGR *
mgr_new(int v)
{
        IMB_MGR *m = alloc_mb_mgr(VARIANTS[v].flags);
        if (!m)
                DIE("alloc_mb_mgr failed");
        VARIANTS[v].init(m);
        if (imb_get_errno(m) != 0 || m->used_arch != (uint32_t) VARIANTS[v].arch ||
            m->used_arch_type != (uint32_t) VARIANTS[v].type) {
                free_mb_mgr(m);
                return NULL;
        }
        return m;
}
void
mgr_init(IMB_MGR *m, int v)
{
        VARIANTS[v].init(m);
        if (imb_get_errno(m) != 0 || m->used_arch != (uint32_t) VARIANTS[v].arch ||
            m->used_arch_type != (uint32_t) VARIANTS[v].type)
                DIE("variant %s not selected on init (arch %u type %u errno %d)", VARIANTS[v].name,
                    m->used_arch, m->used_arch_type, imb_get_errno(m));
}
int
variant_usable(int v)
{
        if (!usable_cache[v]) {
                IMB_MGR *m = mgr_new(v);
                usable_cache[v] = m ? 1 : 2;
                if (m)
                        free_mb_mgr(m);
        }
        return usable_cache[v] == 1;
}

/* ---------- regions ---------- */
region_t
region_new(size_t pages)
{
        region_t r;
        uint8_t *p = mmap(0, (pages + 2) * 4096, PROT_NONE, MAP_PRIVATE | MAP_ANONYMOUS, -1, 0);
        if (p == MAP_FAILED)
                DIE("mmap");
        if (mprotect(p + 4096, pages * 4096, PROT_READ | PROT_WRITE))
                DIE("mprotect");
        r.base = p + 4096;
        r.size = pages * 4096;
        return r;
}

/* ---------- shared memory: signature caps + stats ---------- */
#define NSIGS 8192
#define NSTAT 512
struct shm {
        volatile int lock;
        struct {
                uint64_t h;
                int cnt;
        } sig[NSIGS];
        struct {
                char name[56];
                long long val;
                int is_max;
        } st[NSTAT];
        int nstat;
        long long skipped;
};
static struct shm *S;
static void
shm_lock(void)
{
        while (__atomic_exchange_n(&S->lock, 1, __ATOMIC_ACQUIRE))
                ;
}
static void
shm_unlock(void)
{
        __atomic_store_n(&S->lock, 0, __ATOMIC_RELEASE);
}

void
rec_init(const char *property, const char *tier)
{
        g_property = property;
        g_tier = tier;
        const char *o = getenv("VERIF_OUT");
        if (o)
                out_fd = open(o, O_WRONLY | O_CREAT | O_APPEND, 0644);
        else
                out_fd = 1;
        if (out_fd < 0)
                DIE("open VERIF_OUT");
        const char *sd = getenv("VERIF_SEED");
        if (sd && *sd)
                verif_seed = strtoull(sd, 0, 0);
        if (!verif_seed)
                verif_seed = 1;
        t_start = now_s();
        const char *dl = getenv("VERIF_DEADLINE_S");
        t_deadline = (dl && atof(dl) > 0) ? t_start + atof(dl) : 0;
        S = mmap(0, sizeof *S, PROT_READ | PROT_WRITE, MAP_SHARED | MAP_ANONYMOUS, -1, 0);
        if (S == MAP_FAILED)
                DIE("mmap shm");
        memset(S, 0, sizeof *S);
}

static char rbuf[1 << 16];
static size_t rlen;
static int rfirst;
static void
rput(const char *fmt, ...)
{
        va_list ap;
        va_start(ap, fmt);
        int n = vsnprintf(rbuf + rlen, sizeof rbuf - rlen - 4, fmt, ap);
        va_end(ap);
        if (n > 0) {
                rlen += (size_t) n;
                if (rlen > sizeof rbuf - 8)
                        rlen = sizeof rbuf - 8;
        }
}
void
rec_begin(const char *type)
{
        rlen = 0;
        rfirst = 0;
        rput("{\"type\":\"%s\",\"property\":\"%s\"", type, g_property);
        if (!strcmp(type, "viol")) { /* which driver / library configuration produced it (used by vcheck --replay) */
                const char *d = getenv("VERIF_DRIVER"), *c = getenv("VERIF_CFG");
                if (d)
                        rput(",\"_driver\":\"%s\"", d);
                if (c)
                        rput(",\"_cfg\":\"%s\"", c);
        }
}
void
rec_s(const char *k, const char *v)
{
        rput(",\"%s\":\"", k);
        for (; v && *v; v++) {
                if (*v == '"' || *v == '\\')
                        rput("\\%c", *v);
                else if ((unsigned char) *v < 0x20)
                        rput(" ");
                else
                        rput("%c", *v);
        }
        rput("\"");
}
void
rec_i(const char *k, long long v)
{
        rput(",\"%s\":%lld", k, v);
}
void
rec_hex(const char *k, const void *p, size_t n)
{
        const uint8_t *b = p;
        rput(",\"%s\":\"", k);
        for (size_t i = 0; i < n && i < 256; i++)
                rput("%02x", b[i]);
        rput("\"");
}
void
rec_end(void)
{
        rput("}\n");
        ssize_t w = write(out_fd, rbuf, rlen);
        (void) w;
}
int
rec_sig_ok(const char *sig, int cap)
{
        uint64_t h = hash_bytes(sig, strlen(sig), 7) | 1;
        for (unsigned i = 0; i < NSIGS; i++) {
                unsigned k = (unsigned) ((h + i) % NSIGS);
                uint64_t cur = __atomic_load_n(&S->sig[k].h, __ATOMIC_ACQUIRE);
                if (cur == 0) {
                        uint64_t exp = 0;
                        if (__atomic_compare_exchange_n(&S->sig[k].h, &exp, h, 0, __ATOMIC_ACQ_REL,
                                                        __ATOMIC_ACQUIRE))
                                cur = h;
                        else
                                cur = exp;
                }
                if (cur == h)
                        return __atomic_fetch_add(&S->sig[k].cnt, 1, __ATOMIC_RELAXED) < cap;
        }
        return 0;
}

static int
stat_idx(const char *name, int is_max)
{
        int n = __atomic_load_n(&S->nstat, __ATOMIC_ACQUIRE);
        for (int i = 0; i < n; i++)
                if (!strcmp(S->st[i].name, name))
                        return i;
        shm_lock();
        n = S->nstat;
        int i;
        for (i = 0; i < n; i++)
                if (!strcmp(S->st[i].name, name))
                        break;
        if (i == n) {
                if (n >= NSTAT) {
                        shm_unlock();
                        DIE("too many stats");
                }
                strncpy(S->st[n].name, name, sizeof S->st[n].name - 1);
                S->st[n].is_max = is_max;
                __atomic_store_n(&S->nstat, n + 1, __ATOMIC_RELEASE);
        }
        shm_unlock();
        return i;
}
void
stat_add(const char *name, long long n)
{
        __atomic_fetch_add(&S->st[stat_idx(name, 0)].val, n, __ATOMIC_RELAXED);
}
void
stat_max(const char *name, long long n)
{
        int i = stat_idx(name, 1);
        long long cur = __atomic_load_n(&S->st[i].val, __ATOMIC_RELAXED);
        while (n > cur &&
               !__atomic_compare_exchange_n(&S->st[i].val, &cur, n, 0, __ATOMIC_RELAXED, __ATOMIC_RELAXED))
                ;
}
void
stats_emit(void)
{
        stat_add("_tcalls", g_tcalls);
        g_tcalls = 0;
        rec_begin("stats");
        for (int i = 0; i < S->nstat; i++)
                rec_i(S->st[i].name, S->st[i].val);
        rec_i("_skipped_by_deadline", S->skipped);
        rput(",\"_wall_s\":%.3f", now_s() - t_start);
        rec_end();
}

/* ---------- hash set ---------- */
struct hset {
        uint64_t *t;
        size_t cap, n;
};
hset_t *
hset_new(size_t cap)
{
        hset_t *h = calloc(1, sizeof *h);
        h->cap = cap;
        h->t = calloc(cap, 8);
        if (!h->t)
                DIE("hset alloc");
        return h;
}
static void
hset_grow(hset_t *h)
{
        size_t oc = h->cap;
        uint64_t *ot = h->t;
        h->cap *= 2;
        h->t = calloc(h->cap, 8);
        if (!h->t)
                DIE("hset grow");
        h->n = 0;
        for (size_t i = 0; i < oc; i++)
                if (ot[i])
                        hset_add(h, ot[i]);
        free(ot);
}
int
hset_add(hset_t *h, uint64_t key)
{
        if (!key)
                key = 0x5bd1e995;
        if (h->n * 10 >= h->cap * 7)
                hset_grow(h);
        size_t i = (size_t) (key * 0x9E3779B97F4A7C15ULL) & (h->cap - 1);
        while (h->t[i]) {
                if (h->t[i] == key)
                        return 0;
                i = (i + 1) & (h->cap - 1);
        }
        h->t[i] = key;
        h->n++;
        return 1;
}
size_t
hset_count(hset_t *h)
{
        return h->n;
}

/* ---------- parallel runner ---------- */
static pid_t
spawn_worker(int w, int W, long first, long nitems, volatile long *cur, item_fn f, void *arg, int tmo, int single)
{
        pid_t p = fork();
        if (p < 0)
                DIE("fork");
        if (p)
                return p;
        prctl(PR_SET_PDEATHSIG, SIGKILL); /* a killed / timed-out check must not leave workers behind */
        for (long i = first; i < nitems; i += W) {
                if (deadline_reached() && !single) {
                        __atomic_fetch_add(&S->skipped, (nitems - i + W - 1) / W, __ATOMIC_RELAXED);
                        break;
                }
                cur[w] = i;
                if (tmo)
                        alarm((unsigned) tmo);
                f(i, arg);
                if (single)
                        break;
        }
        alarm(0);
        stat_add("_tcalls", g_tcalls);
        fflush(stdout);
        _exit(0);
}
long
par_run(long nitems, int W, item_fn f, crash_fn cf, void *arg, int tmo)
{
        if (nitems <= 0)
                return 0;
        if (W > nitems)
                W = (int) nitems;
        volatile long *cur = mmap(0, sizeof(long) * (size_t) W, PROT_READ | PROT_WRITE,
                                  MAP_SHARED | MAP_ANONYMOUS, -1, 0);
        pid_t *pid = calloc((size_t) W, sizeof *pid);
        char *retry = calloc((size_t) W, 1); /* slot is re-running one timed-out item alone with a longer limit */
        int live = 0;
        /* quick-tier items are short: a third of the driver's limit (at least 120 s) is ample; once a hang is CONFIRMED (the item
         * timed out again when re-run with four times the limit) the run has failed anyway and only needs to end: later items
         * get 60 s, are not re-run, and after 6 more expiries the remaining items are skipped (exhaustive: false) */
        if (!tier_thorough() && tmo > 360)
                tmo = tmo / 3;
        if (getenv("VERIF_WATCHDOG") && atoi(getenv("VERIF_WATCHDOG")) > 0) /* manual runs against a tree known to hang */
                tmo = atoi(getenv("VERIF_WATCHDOG"));
        int confirmed_hangs = 0, fast_expiries = 0;
        long long skipped0 = S->skipped;
        fflush(stdout);
        fflush(stderr);
        for (int w = 0; w < W; w++) {
                cur[w] = -1;
                pid[w] = spawn_worker(w, W, w, nitems, cur, f, arg, tmo, 0);
                live++;
        }
        while (live > 0) {
                int st;
                pid_t p = wait(&st);
                if (p < 0) {
                        if (errno == EINTR)
                                continue;
                        break;
                }
                int w;
                for (w = 0; w < W; w++)
                        if (pid[w] == p)
                                break;
                if (w == W)
                        continue;
                live--;
                pid[w] = 0;
                long i = cur[w];
                int was_retry = retry[w];
                retry[w] = 0;
                if (WIFEXITED(st) && WEXITSTATUS(st) == 3)
                        DIE("worker reported a framework error");
                if (WIFEXITED(st) && WEXITSTATUS(st) == 0) {
                        if (!was_retry)
                                continue; /* the slot ran its stripe to the end */
                } else {
                        int sig = WIFSIGNALED(st) ? WTERMSIG(st) : -WEXITSTATUS(st);
                        if (sig == SIGALRM && was_retry)
                                confirmed_hangs++;
                        else if (sig == SIGALRM && confirmed_hangs)
                                fast_expiries++;
                        if (sig == SIGALRM && !was_retry && !confirmed_hangs) {
                                /* a watchdog expiry under load is not yet a hang: the (deterministic) item is re-run with
                                 * four times the limit before it is reported */
                                stat_add("items_rerun_after_watchdog", 1);
                                retry[w] = 1;
                                pid[w] = spawn_worker(w, W, i, nitems, cur, f, arg, tmo * 4, 1);
                                live++;
                                continue;
                        }
                        if (cf)
                                cf(i, sig, arg);
                }
                if (i + W < nitems) {
                        if (fast_expiries >= 6) {
                                stat_add("items_skipped_after_confirmed_hangs", (nitems - 1 - i) / W);
                                S->skipped += (nitems - 1 - i) / W;
                                continue;
                        }
                        pid[w] = spawn_worker(w, W, i + W, nitems, cur, f, arg, confirmed_hangs ? 60 : tmo, 0);
                        live++;
                }
        }
        munmap((void *) cur, sizeof(long) * (size_t) W);
        free(pid);
        free(retry);
        return (long) (S->skipped - skipped0);
}

/* ---------- trampoline wrapper ---------- */
long long g_tcalls;
const char *g_tcall_ctx = "";
static uint64_t
tcall_check(const char *what, struct tctx *t)
{
        vtramp(t);
        g_tcalls++;
        const char *bad = NULL;
        if (t->rbx != 0x1111111111111111ULL)
                bad = "rbx";
        else if (t->rbp != 0x2222222222222222ULL)
                bad = "rbp";
        else if (t->r12 != 0x3333333333333333ULL)
                bad = "r12";
        else if (t->r13 != 0x4444444444444444ULL)
                bad = "r13";
        else if (t->r14 != 0x5555555555555555ULL)
                bad = "r14";
        else if (t->r15 != 0x6666666666666666ULL)
                bad = "r15";
        else if (t->rsp_after != t->exp_rsp)
                bad = "rsp";
        else if (t->rflags & 0x400)
                bad = "DF";
        else if (t->mxcsr_after != t->mxcsr_before)
                bad = "mxcsr";
        if (bad) {
                char sig[200];
                snprintf(sig, sizeof sig, "C18|%s|%s|%s", what, g_tcall_ctx, bad);
                if (rec_sig_ok(sig, 3)) {
                        const char *save = g_property;
                        g_property = "C18";
                        rec_begin("viol");
                        rec_s("site", "calling-convention");
                        rec_s("call", what);
                        rec_s("reg", bad);
                        rec_s("ctx", g_tcall_ctx);
                        rec_s("found_by", save);
                        rec_end();
                        g_property = save;
                }
        }
        return t->ret;
}
uint64_t
tcall(const char *what, void *fn, uint64_t a0, uint64_t a1, uint64_t a2, uint64_t a3, uint64_t a4,
      uint64_t a5)
{
        struct tctx t;
        memset(&t, 0, sizeof t);
        t.fn = fn;
        t.a[0] = a0;
        t.a[1] = a1;
        t.a[2] = a2;
        t.a[3] = a3;
        t.a[4] = a4;
        t.a[5] = a5;
        return tcall_check(what, &t);
}
uint64_t
tcalln(const char *what, void *fn, int nargs, const uint64_t *args)
{
        struct tctx t;
        memset(&t, 0, sizeof t);
        t.fn = fn;
        for (int i = 0; i < nargs && i < 6; i++)
                t.a[i] = args[i];
        if (nargs > 38)
                DIE("tcalln: too many arguments");
        for (int i = 6; i < nargs; i++)
                t.sargs[i - 6] = args[i];
        t.nstack = nargs > 6 ? (uint64_t) (nargs - 6) : 0;
        return tcall_check(what, &t);
}
