/* Job catalogue (DESIGN.md 3.2): every algorithm row the library offers, how to build a job for it through the
 * public API, its accepted shapes, and its reference function (ref/). */
#ifndef VERIF_ALGS_H
#define VERIF_ALGS_H
#include "common.h"

enum alg_kind { AK_CIPHER, AK_HASH, AK_AEAD };
enum alg_family {
        F_NULLC, F_AES, F_CBCS, F_DES, F_DES3, F_DOCSISDES, F_CHACHA, F_ZUC, F_SNOW3G, F_KASUMI, F_SNOWV, F_SM4,
        F_HMAC, F_SHA, F_XCBC, F_CMAC, F_GMAC, F_GHASH, F_POLY, F_ZUCEIA, F_S3UIA, F_KF9, F_SM3, F_CRC,
        F_GCM, F_CCM, F_CHAPOLY, F_SNOWVAEAD, F_SM4GCM, F_DOCSISCRC, F_PON
};
/* OOO lane manager classes (for C04/C13/C15 occupancy bounds); LM_NONE = completes at submit on every variant */
enum lane_mgr {
        LM_NONE, LM_AES128, LM_AES192, LM_AES256, LM_CBCS, LM_CFB128, LM_CFB192, LM_CFB256, LM_DOCSIS128, LM_DOCSIS256,
        LM_DOCSIS128CRC, LM_DOCSIS256CRC, LM_DES, LM_DES3, LM_DOCSISDES, LM_ZUC, LM_ZUC256, LM_SNOW3G, LM_CCM128,
        LM_CCM256, LM_HSHA1, LM_HSHA224, LM_HSHA256, LM_HSHA384, LM_HSHA512, LM_HMD5, LM_SHA1, LM_SHA224, LM_SHA256,
        LM_SHA384, LM_SHA512, LM_XCBC, LM_CMAC128, LM_CMAC256, LM_ZUCEIA, LM_ZUC256EIA4, LM_ZUC256EIA8,
        LM_ZUC256EIA16, LM_S3UIA, LM_NUM
};

typedef struct {
        const char *name;
        int kind, family;
        int cm;   /* IMB_CIPHER_MODE */
        int ha;   /* IMB_HASH_ALG */
        int klen; /* key_len_in_bytes (0 for hash-only) */
        int sub;  /* family specific: ref hash id, CRC id, .. */
        int bitlen; /* lengths are bits */
        uint32_t minlen, maxlen, gran;
        int ivlens[3];  /* permitted IV lengths (first = default, 0 terminated); for F_GCM/F_GMAC any >=1 allowed */
        int taglens[4]; /* permitted tag lengths (first = default, 0 terminated) */
        int tag_any_lo, tag_any_hi; /* if hi>0: every tag length lo..hi (step tag_step) permitted */
        int tag_step;
        int lane; /* enum lane_mgr for encrypt (decrypt CBC etc. complete at submit) */
        int lane_enc_only;
        int inplace_only;
} alg_t;
extern const alg_t ALGS[];
extern const int NALGS;
extern int algs_threaded; /* set by drivers that run managers on several threads */
int alg_id(const char *name); /* DIE if unknown */

/* derived key material for one raw key on one manager/variant */
typedef struct keyset keyset_t;
keyset_t *keyset_new(IMB_MGR *m, int keyid); /* keyid selects raw key bytes (seed-derived; 1000+: structured) */
void keyset_free(keyset_t *);
size_t keyset_size(void);
/* placement variant: all key objects live inside `mem` (keyset_size() bytes, 64-byte aligned) - used by the
 * shared-memory re-attach driver so that job descriptors only point into the arena */
keyset_t *keyset_new_at(IMB_MGR *m, int keyid, void *mem);
const uint8_t *keyset_raw(const keyset_t *); /* 64 raw key bytes */
/* C13: overwrite EVERY key object of the set (raw key, all expanded/derived schedules, sub-keys, ipad/opad, GCM
 * tables) with recognisable words: little-endian (index, m0, m1, m2) - the library only consumes these objects,
 * so any byte pattern is a valid "key schedule" for the purpose of residue scanning */
void keyset_pattern(keyset_t *, uint32_t magic24);

typedef struct {
        int alg;
        int dir;          /* 1 encrypt, 0 decrypt */
        uint32_t len;     /* bytes, or bits when ALGS[alg].bitlen */
        int ivlen;        /* 0 = default */
        int taglen;       /* 0 = default */
        uint32_t aadlen;  /* AEAD */
        uint32_t off;     /* cipher/hash start offset in src (bytes) */
        const uint8_t *src;
        uint8_t *dst;     /* == src for in-place */
        const uint8_t *iv;
        const uint8_t *aad;
        uint8_t *tag;
        uint8_t *next_iv; /* CBCS */
        const keyset_t *ks;
        int minimal;      /* poison every field the documentation does not require */
        /* DOCSIS+CRC32 geometry (src==dst frame): */
        uint32_t hash_off, hash_len, cipher_off; /* cipher len = len */
        /* PON: len = frame length (hash length); no_ctr */
        int pon_noctr;
        int chain_order;  /* 0 = documented default */
        /* chained cipher + hash job: alg = cipher row, alg2 = hash row (0 = none). The hash stage covers
         * src[hoff .. hoff+hlen) (hlen in the hash row's unit), uses hiv (rows that take an IV) and tag/taglen */
        int alg2;
        uint32_t hoff, hlen;
        const uint8_t *hiv;
        int hivlen;
} item_t;

void alg_set_poison(void *p);
static inline uint32_t
item_nbytes(const item_t *it)
{
        return ALGS[it->alg].bitlen ? (it->len + 7) / 8 : it->len;
}
int alg_len_ok(int alg, uint32_t len);
int item_taglen(const item_t *it);
int item_ivlen(const item_t *it);
/* fill a job descriptor (memset + all fields) */
void alg_fill(IMB_MGR *m, IMB_JOB *j, const item_t *it);
/* expected outputs from the reference model. exp_dst gets item_nbytes bytes (cipher/aead), exp_tag gets
 * item_taglen bytes (hash/aead), exp_next_iv 16 bytes (CBCS). `prev_dst`: contents of dst before the job
 * (needed for modes that preserve bits/blocks of dst); may be NULL => zeros. Returns bitmask 1=dst 2=tag. */
/* chained job: expected dst and tag under the documented data flow (hash stage reads src as it stands when it runs) */
int alg_ref_chain(const item_t *it, uint8_t *exp_dst, uint8_t *exp_tag);
int alg_ref(const item_t *it, const uint8_t *prev_dst, uint8_t *exp_dst, uint8_t *exp_tag, uint8_t *exp_next_iv);
/* compare produced dst with expectation honouring bit-length tails; 0 = equal */
int alg_cmp_dst(const item_t *it, const uint8_t *got, const uint8_t *exp);
#endif
