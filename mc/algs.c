#include "algs.h"
#include "ref_modes.h"
#include "ref_aead.h"
#include "ref_3gpp.h"

#define L16 65534u
#define IVS(...) { __VA_ARGS__ }
#define TAGS(...) { __VA_ARGS__ }
/* name kind family cm ha klen sub bit min max gran ivlens taglens any_lo any_hi step lane enc_only inplace */
const alg_t ALGS[] = {
        /* ---- ciphers ---- */
        { "null-cipher", AK_CIPHER, F_NULLC, IMB_CIPHER_NULL, IMB_AUTH_NULL, 0, 0, 0, 0, 1u << 20, 1, IVS(0), TAGS(0), 0, 0, 0, LM_NONE, 0, 0 },
        { "aes-cbc-128", AK_CIPHER, F_AES, IMB_CIPHER_CBC, IMB_AUTH_NULL, 16, 0, 0, 16, 65520, 16, IVS(16), TAGS(0), 0, 0, 0, LM_AES128, 1, 0 },
        { "aes-cbc-192", AK_CIPHER, F_AES, IMB_CIPHER_CBC, IMB_AUTH_NULL, 24, 0, 0, 16, 65520, 16, IVS(16), TAGS(0), 0, 0, 0, LM_AES192, 1, 0 },
        { "aes-cbc-256", AK_CIPHER, F_AES, IMB_CIPHER_CBC, IMB_AUTH_NULL, 32, 0, 0, 16, 65520, 16, IVS(16), TAGS(0), 0, 0, 0, LM_AES256, 1, 0 },
        { "aes-ctr-128", AK_CIPHER, F_AES, IMB_CIPHER_CNTR, IMB_AUTH_NULL, 16, 0, 0, 1, 1u << 20, 1, IVS(16, 12), TAGS(0), 0, 0, 0, LM_NONE, 0, 0 },
        { "aes-ctr-192", AK_CIPHER, F_AES, IMB_CIPHER_CNTR, IMB_AUTH_NULL, 24, 0, 0, 1, 1u << 20, 1, IVS(16, 12), TAGS(0), 0, 0, 0, LM_NONE, 0, 0 },
        { "aes-ctr-256", AK_CIPHER, F_AES, IMB_CIPHER_CNTR, IMB_AUTH_NULL, 32, 0, 0, 1, 1u << 20, 1, IVS(16, 12), TAGS(0), 0, 0, 0, LM_NONE, 0, 0 },
        { "aes-ecb-128", AK_CIPHER, F_AES, IMB_CIPHER_ECB, IMB_AUTH_NULL, 16, 0, 0, 16, 65520, 16, IVS(0), TAGS(0), 0, 0, 0, LM_NONE, 0, 0 },
        { "aes-ecb-192", AK_CIPHER, F_AES, IMB_CIPHER_ECB, IMB_AUTH_NULL, 24, 0, 0, 16, 65520, 16, IVS(0), TAGS(0), 0, 0, 0, LM_NONE, 0, 0 },
        { "aes-ecb-256", AK_CIPHER, F_AES, IMB_CIPHER_ECB, IMB_AUTH_NULL, 32, 0, 0, 16, 65520, 16, IVS(0), TAGS(0), 0, 0, 0, LM_NONE, 0, 0 },
        { "aes-cfb-128", AK_CIPHER, F_AES, IMB_CIPHER_CFB, IMB_AUTH_NULL, 16, 0, 0, 0, 65520, 16, IVS(16), TAGS(0), 0, 0, 0, LM_CFB128, 1, 0 },
        { "aes-cfb-192", AK_CIPHER, F_AES, IMB_CIPHER_CFB, IMB_AUTH_NULL, 24, 0, 0, 0, 65520, 16, IVS(16), TAGS(0), 0, 0, 0, LM_CFB192, 1, 0 },
        { "aes-cfb-256", AK_CIPHER, F_AES, IMB_CIPHER_CFB, IMB_AUTH_NULL, 32, 0, 0, 0, 65520, 16, IVS(16), TAGS(0), 0, 0, 0, LM_CFB256, 1, 0 },
        { "aes-ctr-bit-128", AK_CIPHER, F_AES, IMB_CIPHER_CNTR_BITLEN, IMB_AUTH_NULL, 16, 0, 1, 1, 8u << 20, 1, IVS(16), TAGS(0), 0, 0, 0, LM_NONE, 0, 0 },
        { "aes-ctr-bit-192", AK_CIPHER, F_AES, IMB_CIPHER_CNTR_BITLEN, IMB_AUTH_NULL, 24, 0, 1, 1, 8u << 20, 1, IVS(16), TAGS(0), 0, 0, 0, LM_NONE, 0, 0 },
        { "aes-ctr-bit-256", AK_CIPHER, F_AES, IMB_CIPHER_CNTR_BITLEN, IMB_AUTH_NULL, 32, 0, 1, 1, 8u << 20, 1, IVS(16), TAGS(0), 0, 0, 0, LM_NONE, 0, 0 },
        { "aes-cbcs-1-9", AK_CIPHER, F_CBCS, IMB_CIPHER_CBCS_1_9, IMB_AUTH_NULL, 16, 0, 0, 16, 65520, 16, IVS(16), TAGS(0), 0, 0, 0, LM_CBCS, 1, 0 },
        { "docsis-aes-128", AK_CIPHER, F_AES, IMB_CIPHER_DOCSIS_SEC_BPI, IMB_AUTH_NULL, 16, 0, 0, 0, L16, 1, IVS(16), TAGS(0), 0, 0, 0, LM_DOCSIS128, 1, 0 },
        { "docsis-aes-256", AK_CIPHER, F_AES, IMB_CIPHER_DOCSIS_SEC_BPI, IMB_AUTH_NULL, 32, 0, 0, 0, L16, 1, IVS(16), TAGS(0), 0, 0, 0, LM_DOCSIS256, 1, 0 },
        { "docsis-des", AK_CIPHER, F_DOCSISDES, IMB_CIPHER_DOCSIS_DES, IMB_AUTH_NULL, 8, 0, 0, 1, L16, 1, IVS(8), TAGS(0), 0, 0, 0, LM_DOCSISDES, 0, 0 },
        { "des-cbc", AK_CIPHER, F_DES, IMB_CIPHER_DES, IMB_AUTH_NULL, 8, 0, 0, 8, 65528, 8, IVS(8), TAGS(0), 0, 0, 0, LM_DES, 0, 0 },
        { "3des-cbc", AK_CIPHER, F_DES3, IMB_CIPHER_DES3, IMB_AUTH_NULL, 24, 0, 0, 8, 65528, 8, IVS(8), TAGS(0), 0, 0, 0, LM_DES3, 0, 0 },
        { "chacha20", AK_CIPHER, F_CHACHA, IMB_CIPHER_CHACHA20, IMB_AUTH_NULL, 32, 0, 0, 1, 1u << 20, 1, IVS(12), TAGS(0), 0, 0, 0, LM_NONE, 0, 0 },
        { "zuc-eea3-128", AK_CIPHER, F_ZUC, IMB_CIPHER_ZUC_EEA3, IMB_AUTH_NULL, 16, 0, 0, 1, 8188, 1, IVS(16), TAGS(0), 0, 0, 0, LM_ZUC, 0, 0 },
        { "zuc-eea3-256", AK_CIPHER, F_ZUC, IMB_CIPHER_ZUC_EEA3, IMB_AUTH_NULL, 32, 0, 0, 1, 8188, 1, IVS(25, 23), TAGS(0), 0, 0, 0, LM_ZUC256, 0, 0 },
        { "snow3g-uea2", AK_CIPHER, F_SNOW3G, IMB_CIPHER_SNOW3G_UEA2_BITLEN, IMB_AUTH_NULL, 16, 0, 1, 1, 8u << 20, 1, IVS(16), TAGS(0), 0, 0, 0, LM_SNOW3G, 0, 0 },
        { "kasumi-f8", AK_CIPHER, F_KASUMI, IMB_CIPHER_KASUMI_UEA1_BITLEN, IMB_AUTH_NULL, 16, 0, 1, 1, 20000, 1, IVS(8), TAGS(0), 0, 0, 0, LM_NONE, 0, 0 },
        { "snow-v", AK_CIPHER, F_SNOWV, IMB_CIPHER_SNOW_V, IMB_AUTH_NULL, 32, 0, 0, 0, 1u << 20, 1, IVS(16), TAGS(0), 0, 0, 0, LM_NONE, 0, 0 },
        { "sm4-ecb", AK_CIPHER, F_SM4, IMB_CIPHER_SM4_ECB, IMB_AUTH_NULL, 16, 0, 0, 16, 1u << 20, 16, IVS(0), TAGS(0), 0, 0, 0, LM_NONE, 0, 0 },
        { "sm4-cbc", AK_CIPHER, F_SM4, IMB_CIPHER_SM4_CBC, IMB_AUTH_NULL, 16, 0, 0, 16, 65520, 16, IVS(16), TAGS(0), 0, 0, 0, LM_NONE, 0, 0 },
        { "sm4-ctr", AK_CIPHER, F_SM4, IMB_CIPHER_SM4_CNTR, IMB_AUTH_NULL, 16, 0, 0, 1, 1u << 20, 1, IVS(16, 12), TAGS(0), 0, 0, 0, LM_NONE, 0, 0 },
        /* ---- hashes / MACs ---- */
        { "hmac-sha1", AK_HASH, F_HMAC, IMB_CIPHER_NULL, IMB_AUTH_HMAC_SHA_1, 0, REF_SHA1, 0, 1, L16, 1, IVS(0), TAGS(12, 20), 0, 0, 0, LM_HSHA1, 0, 0 },
        { "hmac-sha224", AK_HASH, F_HMAC, IMB_CIPHER_NULL, IMB_AUTH_HMAC_SHA_224, 0, REF_SHA224, 0, 1, L16, 1, IVS(0), TAGS(14, 28), 0, 0, 0, LM_HSHA224, 0, 0 },
        { "hmac-sha256", AK_HASH, F_HMAC, IMB_CIPHER_NULL, IMB_AUTH_HMAC_SHA_256, 0, REF_SHA256, 0, 1, L16, 1, IVS(0), TAGS(16, 32), 0, 0, 0, LM_HSHA256, 0, 0 },
        { "hmac-sha384", AK_HASH, F_HMAC, IMB_CIPHER_NULL, IMB_AUTH_HMAC_SHA_384, 0, REF_SHA384, 0, 1, L16, 1, IVS(0), TAGS(24, 48), 0, 0, 0, LM_HSHA384, 0, 0 },
        { "hmac-sha512", AK_HASH, F_HMAC, IMB_CIPHER_NULL, IMB_AUTH_HMAC_SHA_512, 0, REF_SHA512, 0, 1, L16, 1, IVS(0), TAGS(32, 64), 0, 0, 0, LM_HSHA512, 0, 0 },
        { "hmac-md5", AK_HASH, F_HMAC, IMB_CIPHER_NULL, IMB_AUTH_MD5, 0, REF_MD5, 0, 1, L16, 1, IVS(0), TAGS(12, 16), 0, 0, 0, LM_HMD5, 0, 0 },
        { "hmac-sm3", AK_HASH, F_HMAC, IMB_CIPHER_NULL, IMB_AUTH_HMAC_SM3, 0, REF_SM3, 0, 1, 1u << 20, 1, IVS(0), TAGS(32, 16), 1, 32, 1, LM_NONE, 0, 0 },
        { "sha1", AK_HASH, F_SHA, IMB_CIPHER_NULL, IMB_AUTH_SHA_1, 0, REF_SHA1, 0, 0, L16, 1, IVS(0), TAGS(20), 0, 0, 0, LM_SHA1, 0, 0 },
        { "sha224", AK_HASH, F_SHA, IMB_CIPHER_NULL, IMB_AUTH_SHA_224, 0, REF_SHA224, 0, 0, L16, 1, IVS(0), TAGS(28), 0, 0, 0, LM_SHA224, 0, 0 },
        { "sha256", AK_HASH, F_SHA, IMB_CIPHER_NULL, IMB_AUTH_SHA_256, 0, REF_SHA256, 0, 0, L16, 1, IVS(0), TAGS(32), 0, 0, 0, LM_SHA256, 0, 0 },
        { "sha384", AK_HASH, F_SHA, IMB_CIPHER_NULL, IMB_AUTH_SHA_384, 0, REF_SHA384, 0, 0, L16, 1, IVS(0), TAGS(48), 0, 0, 0, LM_SHA384, 0, 0 },
        { "sha512", AK_HASH, F_SHA, IMB_CIPHER_NULL, IMB_AUTH_SHA_512, 0, REF_SHA512, 0, 0, L16, 1, IVS(0), TAGS(64), 0, 0, 0, LM_SHA512, 0, 0 },
        { "sm3", AK_HASH, F_SM3, IMB_CIPHER_NULL, IMB_AUTH_SM3, 0, REF_SM3, 0, 0, 1u << 20, 1, IVS(0), TAGS(32), 1, 32, 1, LM_NONE, 0, 0 },
        { "aes-xcbc", AK_HASH, F_XCBC, IMB_CIPHER_NULL, IMB_AUTH_AES_XCBC, 0, 0, 0, 0, L16, 1, IVS(0), TAGS(12), 0, 0, 0, LM_XCBC, 0, 0 },
        { "aes-cmac-128", AK_HASH, F_CMAC, IMB_CIPHER_NULL, IMB_AUTH_AES_CMAC, 16, 0, 0, 0, L16, 1, IVS(0), TAGS(16), 1, 16, 1, LM_CMAC128, 0, 0 },
        { "aes-cmac-bitlen", AK_HASH, F_CMAC, IMB_CIPHER_NULL, IMB_AUTH_AES_CMAC_BITLEN, 16, 0, 1, 0, L16 * 8, 1, IVS(0), TAGS(4), 1, 16, 1, LM_CMAC128, 0, 0 },
        { "aes-cmac-256", AK_HASH, F_CMAC, IMB_CIPHER_NULL, IMB_AUTH_AES_CMAC_256, 32, 0, 0, 0, L16, 1, IVS(0), TAGS(16), 1, 16, 1, LM_CMAC256, 0, 0 },
        { "aes-gmac-128", AK_HASH, F_GMAC, IMB_CIPHER_NULL, IMB_AUTH_AES_GMAC_128, 16, 0, 0, 0, 1u << 20, 1, IVS(12), TAGS(16), 1, 16, 1, LM_NONE, 0, 0 },
        { "aes-gmac-192", AK_HASH, F_GMAC, IMB_CIPHER_NULL, IMB_AUTH_AES_GMAC_192, 24, 0, 0, 0, 1u << 20, 1, IVS(12), TAGS(16), 1, 16, 1, LM_NONE, 0, 0 },
        { "aes-gmac-256", AK_HASH, F_GMAC, IMB_CIPHER_NULL, IMB_AUTH_AES_GMAC_256, 32, 0, 0, 0, 1u << 20, 1, IVS(12), TAGS(16), 1, 16, 1, LM_NONE, 0, 0 },
        { "ghash", AK_HASH, F_GHASH, IMB_CIPHER_NULL, IMB_AUTH_GHASH, 16, 0, 0, 0, 1u << 20, 1, IVS(0), TAGS(16), 1, 16, 1, LM_NONE, 0, 0 },
        { "poly1305", AK_HASH, F_POLY, IMB_CIPHER_NULL, IMB_AUTH_POLY1305, 32, 0, 0, 0, 1u << 20, 1, IVS(0), TAGS(16), 0, 0, 0, LM_NONE, 0, 0 },
        { "zuc-eia3-128", AK_HASH, F_ZUCEIA, IMB_CIPHER_NULL, IMB_AUTH_ZUC_EIA3_BITLEN, 16, 0, 1, 1, 65504, 1, IVS(16), TAGS(4), 0, 0, 0, LM_ZUCEIA, 0, 0 },
        { "zuc-eia3-256", AK_HASH, F_ZUCEIA, IMB_CIPHER_NULL, IMB_AUTH_ZUC256_EIA3_BITLEN, 32, 0, 1, 1, 65504, 1, IVS(25, 23), TAGS(4, 8, 16), 0, 0, 0, LM_ZUC256EIA4, 0, 0 },
        { "snow3g-uia2", AK_HASH, F_S3UIA, IMB_CIPHER_NULL, IMB_AUTH_SNOW3G_UIA2_BITLEN, 16, 0, 1, 1, 8u << 20, 1, IVS(16), TAGS(4), 0, 0, 0, LM_S3UIA, 0, 0 },
        { "kasumi-f9", AK_HASH, F_KF9, IMB_CIPHER_NULL, IMB_AUTH_KASUMI_UIA1, 16, 0, 0, 9, 2500, 1, IVS(0), TAGS(4), 0, 0, 0, LM_NONE, 0, 0 },
        { "crc32-ethernet-fcs", AK_HASH, F_CRC, IMB_CIPHER_NULL, IMB_AUTH_CRC32_ETHERNET_FCS, 0, REF_CRC32_ETHERNET_FCS, 0, 0, 1u << 20, 1, IVS(0), TAGS(4), 0, 0, 0, LM_NONE, 0, 0 },
        { "crc32-sctp", AK_HASH, F_CRC, IMB_CIPHER_NULL, IMB_AUTH_CRC32_SCTP, 0, REF_CRC32_SCTP, 0, 0, 1u << 20, 1, IVS(0), TAGS(4), 0, 0, 0, LM_NONE, 0, 0 },
        { "crc32-wimax-ofdma-data", AK_HASH, F_CRC, IMB_CIPHER_NULL, IMB_AUTH_CRC32_WIMAX_OFDMA_DATA, 0, REF_CRC32_WIMAX_OFDMA_DATA, 0, 0, 1u << 20, 1, IVS(0), TAGS(4), 0, 0, 0, LM_NONE, 0, 0 },
        { "crc24-lte-a", AK_HASH, F_CRC, IMB_CIPHER_NULL, IMB_AUTH_CRC24_LTE_A, 0, REF_CRC24_LTE_A, 0, 0, 1u << 20, 1, IVS(0), TAGS(4), 0, 0, 0, LM_NONE, 0, 0 },
        { "crc24-lte-b", AK_HASH, F_CRC, IMB_CIPHER_NULL, IMB_AUTH_CRC24_LTE_B, 0, REF_CRC24_LTE_B, 0, 0, 1u << 20, 1, IVS(0), TAGS(4), 0, 0, 0, LM_NONE, 0, 0 },
        { "crc16-x25", AK_HASH, F_CRC, IMB_CIPHER_NULL, IMB_AUTH_CRC16_X25, 0, REF_CRC16_X25, 0, 0, 1u << 20, 1, IVS(0), TAGS(4), 0, 0, 0, LM_NONE, 0, 0 },
        { "crc16-fp-data", AK_HASH, F_CRC, IMB_CIPHER_NULL, IMB_AUTH_CRC16_FP_DATA, 0, REF_CRC16_FP_DATA, 0, 0, 1u << 20, 1, IVS(0), TAGS(4), 0, 0, 0, LM_NONE, 0, 0 },
        { "crc11-fp-header", AK_HASH, F_CRC, IMB_CIPHER_NULL, IMB_AUTH_CRC11_FP_HEADER, 0, REF_CRC11_FP_HEADER, 0, 0, 1u << 20, 1, IVS(0), TAGS(4), 0, 0, 0, LM_NONE, 0, 0 },
        { "crc10-iuup-data", AK_HASH, F_CRC, IMB_CIPHER_NULL, IMB_AUTH_CRC10_IUUP_DATA, 0, REF_CRC10_IUUP_DATA, 0, 0, 1u << 20, 1, IVS(0), TAGS(4), 0, 0, 0, LM_NONE, 0, 0 },
        { "crc8-wimax-ofdma-hcs", AK_HASH, F_CRC, IMB_CIPHER_NULL, IMB_AUTH_CRC8_WIMAX_OFDMA_HCS, 0, REF_CRC8_WIMAX_OFDMA_HCS, 0, 0, 1u << 20, 1, IVS(0), TAGS(4), 0, 0, 0, LM_NONE, 0, 0 },
        { "crc7-fp-header", AK_HASH, F_CRC, IMB_CIPHER_NULL, IMB_AUTH_CRC7_FP_HEADER, 0, REF_CRC7_FP_HEADER, 0, 0, 1u << 20, 1, IVS(0), TAGS(4), 0, 0, 0, LM_NONE, 0, 0 },
        { "crc6-iuup-header", AK_HASH, F_CRC, IMB_CIPHER_NULL, IMB_AUTH_CRC6_IUUP_HEADER, 0, REF_CRC6_IUUP_HEADER, 0, 0, 1u << 20, 1, IVS(0), TAGS(4), 0, 0, 0, LM_NONE, 0, 0 },
        /* ---- AEAD / combined ---- */
        { "aes-gcm-128", AK_AEAD, F_GCM, IMB_CIPHER_GCM, IMB_AUTH_AES_GMAC, 16, 0, 0, 0, 1u << 20, 1, IVS(12), TAGS(16), 1, 16, 1, LM_NONE, 0, 0 },
        { "aes-gcm-192", AK_AEAD, F_GCM, IMB_CIPHER_GCM, IMB_AUTH_AES_GMAC, 24, 0, 0, 0, 1u << 20, 1, IVS(12), TAGS(16), 1, 16, 1, LM_NONE, 0, 0 },
        { "aes-gcm-256", AK_AEAD, F_GCM, IMB_CIPHER_GCM, IMB_AUTH_AES_GMAC, 32, 0, 0, 0, 1u << 20, 1, IVS(12), TAGS(16), 1, 16, 1, LM_NONE, 0, 0 },
        { "aes-ccm-128", AK_AEAD, F_CCM, IMB_CIPHER_CCM, IMB_AUTH_AES_CCM, 16, 0, 0, 0, L16, 1, IVS(13, 7, 8), TAGS(8), 4, 16, 2, LM_CCM128, 0, 0 },
        { "aes-ccm-256", AK_AEAD, F_CCM, IMB_CIPHER_CCM, IMB_AUTH_AES_CCM, 32, 0, 0, 0, L16, 1, IVS(13, 7, 8), TAGS(8), 4, 16, 2, LM_CCM256, 0, 0 },
        { "chacha20-poly1305", AK_AEAD, F_CHAPOLY, IMB_CIPHER_CHACHA20_POLY1305, IMB_AUTH_CHACHA20_POLY1305, 32, 0, 0, 0, 1u << 20, 1, IVS(12), TAGS(16), 0, 0, 0, LM_NONE, 0, 0 },
        { "snow-v-aead", AK_AEAD, F_SNOWVAEAD, IMB_CIPHER_SNOW_V_AEAD, IMB_AUTH_SNOW_V_AEAD, 32, 0, 0, 0, 1u << 20, 1, IVS(16), TAGS(16), 0, 0, 0, LM_NONE, 0, 0 },
        { "sm4-gcm", AK_AEAD, F_SM4GCM, IMB_CIPHER_SM4_GCM, IMB_AUTH_SM4_GCM, 16, 0, 0, 0, 1u << 20, 1, IVS(12), TAGS(16), 1, 16, 1, LM_NONE, 0, 0 },
        { "docsis-aes-128-crc32", AK_AEAD, F_DOCSISCRC, IMB_CIPHER_DOCSIS_SEC_BPI, IMB_AUTH_DOCSIS_CRC32, 16, 0, 0, 0, L16, 1, IVS(16), TAGS(4), 0, 0, 0, LM_DOCSIS128CRC, 1, 1 },
        { "docsis-aes-256-crc32", AK_AEAD, F_DOCSISCRC, IMB_CIPHER_DOCSIS_SEC_BPI, IMB_AUTH_DOCSIS_CRC32, 32, 0, 0, 0, L16, 1, IVS(16), TAGS(4), 0, 0, 0, LM_DOCSIS256CRC, 1, 1 },
        { "pon-aes-128", AK_AEAD, F_PON, IMB_CIPHER_PON_AES_CNTR, IMB_AUTH_PON_CRC_BIP, 16, 0, 0, 8, 16384, 4, IVS(16), TAGS(8), 0, 0, 0, LM_NONE, 0, 1 },
};
int algs_threaded;
const int NALGS = (int) (sizeof ALGS / sizeof ALGS[0]);

int
alg_id(const char *name)
{
        for (int i = 0; i < NALGS; i++)
                if (!strcmp(ALGS[i].name, name))
                        return i;
        DIE("unknown algorithm %s", name);
        return -1;
}
int
alg_len_ok(int a, uint32_t len)
{
        const alg_t *A = &ALGS[a];
        if (len < A->minlen || len > A->maxlen)
                return 0;
        return (len % A->gran) == 0;
}

struct keyset {
        uint8_t raw[64] __attribute__((aligned(64)));
        uint32_t aes_e[3][60] __attribute__((aligned(16)));
        uint32_t aes_d[3][60] __attribute__((aligned(16)));
        uint64_t des[3][16] __attribute__((aligned(16)));
        const void *des3[3];
        struct gcm_key_data gcm[3] __attribute__((aligned(64)));
        struct gcm_key_data ghash __attribute__((aligned(64)));
        struct gcm_key_data sm4gcm __attribute__((aligned(64)));
        uint32_t sk1[2][4] __attribute__((aligned(16))), sk2[2][4] __attribute__((aligned(16)));
        uint32_t xk1[44] __attribute__((aligned(16)));
        uint8_t xk2[16] __attribute__((aligned(16))), xk3[16] __attribute__((aligned(16)));
        uint8_t ipad[7][128] __attribute__((aligned(64))), opad[7][128] __attribute__((aligned(64)));
        uint32_t sm4_e[32] __attribute__((aligned(16))), sm4_d[32] __attribute__((aligned(16)));
        snow3g_key_schedule_t snow3g_s __attribute__((aligned(64)));
        kasumi_key_sched_t kas8_s __attribute__((aligned(64))), kas9_s __attribute__((aligned(64)));
        uint8_t *snow3g, *kas8, *kas9; /* point at the members above */
        int placed; /* storage not owned */
        uint8_t zero16[16] __attribute__((aligned(16)));
        int hmac_klen;
};
#define KI(klen) ((klen) == 16 ? 0 : (klen) == 24 ? 1 : 2)

const uint8_t *
keyset_raw(const keyset_t *k)
{
        return k->raw;
}
size_t
keyset_size(void)
{
        return (sizeof(keyset_t) + 63) & ~(size_t) 63;
}
keyset_t *
keyset_new(IMB_MGR *m, int keyid)
{
        return keyset_new_at(m, keyid, NULL);
}
keyset_t *
keyset_new_at(IMB_MGR *m, int keyid, void *mem)
{
        keyset_t *k = mem ? mem : aligned_alloc(64, keyset_size());
        memset(k, 0, sizeof *k);
        k->placed = mem != NULL;
        if (keyid >= 2000 && keyid < 2016) { /* the 4 weak and 12 semi-weak DES keys, repeated to 64 bytes */
                static const uint8_t W[16][8] = {
                        { 0x01, 0x01, 0x01, 0x01, 0x01, 0x01, 0x01, 0x01 }, { 0xFE, 0xFE, 0xFE, 0xFE, 0xFE, 0xFE, 0xFE, 0xFE },
                        { 0xE0, 0xE0, 0xE0, 0xE0, 0xF1, 0xF1, 0xF1, 0xF1 }, { 0x1F, 0x1F, 0x1F, 0x1F, 0x0E, 0x0E, 0x0E, 0x0E },
                        { 0x01, 0xFE, 0x01, 0xFE, 0x01, 0xFE, 0x01, 0xFE }, { 0xFE, 0x01, 0xFE, 0x01, 0xFE, 0x01, 0xFE, 0x01 },
                        { 0x1F, 0xE0, 0x1F, 0xE0, 0x0E, 0xF1, 0x0E, 0xF1 }, { 0xE0, 0x1F, 0xE0, 0x1F, 0xF1, 0x0E, 0xF1, 0x0E },
                        { 0x01, 0xE0, 0x01, 0xE0, 0x01, 0xF1, 0x01, 0xF1 }, { 0xE0, 0x01, 0xE0, 0x01, 0xF1, 0x01, 0xF1, 0x01 },
                        { 0x1F, 0xFE, 0x1F, 0xFE, 0x0E, 0xFE, 0x0E, 0xFE }, { 0xFE, 0x1F, 0xFE, 0x1F, 0xFE, 0x0E, 0xFE, 0x0E },
                        { 0x01, 0x1F, 0x01, 0x1F, 0x01, 0x0E, 0x01, 0x0E }, { 0x1F, 0x01, 0x1F, 0x01, 0x0E, 0x01, 0x0E, 0x01 },
                        { 0xE0, 0xFE, 0xE0, 0xFE, 0xF1, 0xFE, 0xF1, 0xFE }, { 0xFE, 0xE0, 0xFE, 0xE0, 0xFE, 0xF1, 0xFE, 0xF1 }
                };
                for (int i = 0; i < 64; i++)
                        k->raw[i] = W[keyid - 2000][i % 8];
        } else if (keyid >= 1000) { /* structured keys */
                int s = keyid - 1000;
                if (s == 0)
                        memset(k->raw, 0, 64);
                else if (s == 1)
                        memset(k->raw, 0xff, 64);
                else if (s < 2 + 256) /* single bit (within first 32 bytes) */
                        k->raw[(s - 2) / 8] = (uint8_t) (0x80 >> ((s - 2) % 8));
                else
                        for (int i = 0; i < 64; i++)
                                k->raw[i] = (uint8_t) (i * (s - 257) + s);
        } else
                fill_rand(k->raw, 64, 7000 + (uint64_t) keyid);
        IMB_AES_KEYEXP_128(m, k->raw, k->aes_e[0], k->aes_d[0]);
        IMB_AES_KEYEXP_192(m, k->raw, k->aes_e[1], k->aes_d[1]);
        IMB_AES_KEYEXP_256(m, k->raw, k->aes_e[2], k->aes_d[2]);
        for (int i = 0; i < 3; i++) {
                IMB_DES_KEYSCHED(m, k->des[i], k->raw + 8 * i);
                k->des3[i] = k->des[i];
        }
        IMB_AES128_GCM_PRE(m, k->raw, &k->gcm[0]);
        IMB_AES192_GCM_PRE(m, k->raw, &k->gcm[1]);
        IMB_AES256_GCM_PRE(m, k->raw, &k->gcm[2]);
        IMB_GHASH_PRE(m, k->raw, &k->ghash);
        imb_sm4_gcm_pre(m, k->raw, &k->sm4gcm);
        IMB_AES_CMAC_SUBKEY_GEN_128(m, k->aes_e[0], k->sk1[0], k->sk2[0]);
        IMB_AES_CMAC_SUBKEY_GEN_256(m, k->aes_e[2], k->sk1[1], k->sk2[1]);
        IMB_AES_XCBC_KEYEXP(m, k->raw, k->xk1, k->xk2, k->xk3);
        k->hmac_klen = 32;
        static const IMB_HASH_ALG hh[7] = { IMB_AUTH_HMAC_SHA_1,   IMB_AUTH_HMAC_SHA_224, IMB_AUTH_HMAC_SHA_256,
                                            IMB_AUTH_HMAC_SHA_384, IMB_AUTH_HMAC_SHA_512, IMB_AUTH_MD5,
                                            IMB_AUTH_HMAC_SM3 };
        for (int i = 0; i < 7; i++)
                imb_hmac_ipad_opad(m, hh[i], k->raw, (size_t) k->hmac_klen, k->ipad[i], k->opad[i]);
        IMB_SM4_KEYEXP(m, k->raw, k->sm4_e, k->sm4_d);
        if (IMB_SNOW3G_KEY_SCHED_SIZE(m) > sizeof k->snow3g_s || IMB_KASUMI_KEY_SCHED_SIZE(m) > sizeof k->kas8_s)
                DIE("key schedule larger than its public type");
        k->snow3g = (uint8_t *) &k->snow3g_s;
        k->kas8 = (uint8_t *) &k->kas8_s;
        k->kas9 = (uint8_t *) &k->kas9_s;
        IMB_SNOW3G_INIT_KEY_SCHED(m, k->raw, (snow3g_key_schedule_t *) k->snow3g);
        IMB_KASUMI_INIT_F8_KEY_SCHED(m, k->raw, (kasumi_key_sched_t *) k->kas8);
        IMB_KASUMI_INIT_F9_KEY_SCHED(m, k->raw, (kasumi_key_sched_t *) k->kas9);
        /* (with several threads the process-wide error mirror may carry another manager's code) */
        if (!algs_threaded && imb_get_errno(m) != 0)
                DIE("key preparation failed: errno %d", imb_get_errno(m));
        return k;
}
static void
pat(void *p, size_t n, uint32_t magic24, uint32_t *idx)
{
        uint8_t *b = p;
        for (size_t i = 0; i + 4 <= n; i += 4) {
                b[i] = (uint8_t) (*idx)++;
                b[i + 1] = (uint8_t) (magic24 >> 16);
                b[i + 2] = (uint8_t) (magic24 >> 8);
                b[i + 3] = (uint8_t) magic24;
        }
}
void
keyset_pattern(keyset_t *k, uint32_t magic)
{
        uint32_t idx = 0;
        pat(k->raw, sizeof k->raw, magic, &idx);
        pat(k->aes_e, sizeof k->aes_e, magic, &idx);
        pat(k->aes_d, sizeof k->aes_d, magic, &idx);
        pat(k->des, sizeof k->des, magic, &idx);
        pat(&k->gcm, sizeof k->gcm, magic, &idx);
        pat(&k->ghash, sizeof k->ghash, magic, &idx);
        pat(&k->sm4gcm, sizeof k->sm4gcm, magic, &idx);
        pat(k->sk1, sizeof k->sk1, magic, &idx);
        pat(k->sk2, sizeof k->sk2, magic, &idx);
        pat(k->xk1, sizeof k->xk1, magic, &idx);
        pat(k->xk2, sizeof k->xk2, magic, &idx);
        pat(k->xk3, sizeof k->xk3, magic, &idx);
        pat(k->ipad, sizeof k->ipad, magic, &idx);
        pat(k->opad, sizeof k->opad, magic, &idx);
        pat(k->sm4_e, sizeof k->sm4_e, magic, &idx);
        pat(k->sm4_d, sizeof k->sm4_d, magic, &idx);
        pat(k->snow3g, sizeof(snow3g_key_schedule_t), magic, &idx);
        pat(k->kas8, sizeof(kasumi_key_sched_t), magic, &idx);
        pat(k->kas9, sizeof(kasumi_key_sched_t), magic, &idx);
}
void
keyset_free(keyset_t *k)
{
        if (!k || k->placed)
                return;
        free(k);
}

static void *POISON;
void
alg_set_poison(void *p)
{
        POISON = p;
}
int
item_taglen(const item_t *it)
{
        return it->taglen ? it->taglen : ALGS[it->alg].taglens[0];
}
int
item_ivlen(const item_t *it)
{
        return it->ivlen ? it->ivlen : ALGS[it->alg].ivlens[0];
}

static void
fill_one(IMB_MGR *m, IMB_JOB *j, const item_t *it)
{
        const alg_t *A = &ALGS[it->alg];
        const keyset_t *k = it->ks;
        const int enc = it->dir;
        const int ivl = item_ivlen(it), tl = item_taglen(it);
        const int ki = KI(A->klen);
        void *P = it->minimal ? POISON : NULL;
        (void) m;
        memset(j, 0, sizeof *j);
        j->cipher_mode = (IMB_CIPHER_MODE) A->cm;
        j->hash_alg = (IMB_HASH_ALG) A->ha;
        j->cipher_direction = enc ? IMB_DIR_ENCRYPT : IMB_DIR_DECRYPT;
        j->chain_order = enc ? IMB_ORDER_CIPHER_HASH : IMB_ORDER_HASH_CIPHER;
        j->key_len_in_bytes = (uint64_t) A->klen;
        j->src = it->src;
        j->dst = it->dst;
        j->iv = it->iv;
        j->iv_len_in_bytes = (uint64_t) ivl;
        if (A->kind != AK_HASH) {
                j->cipher_start_src_offset_in_bytes = it->off;
                j->msg_len_to_cipher_in_bytes = it->len;
        } else {
                j->key_len_in_bytes = 0;
                j->iv_len_in_bytes = 0;
                j->iv = P;
                j->dst = P;
                j->enc_keys = P;
                j->dec_keys = P;
                j->cipher_direction = IMB_DIR_ENCRYPT;
                j->chain_order = IMB_ORDER_HASH_CIPHER;
        }
        if (A->kind != AK_CIPHER) {
                j->hash_start_src_offset_in_bytes = it->off;
                j->msg_len_to_hash_in_bytes = it->len;
                j->auth_tag_output = it->tag;
                j->auth_tag_output_len_in_bytes = (uint64_t) tl;
        } else {
                j->auth_tag_output = P;
        }
        switch (A->family) {
        case F_NULLC:
                j->enc_keys = P;
                j->dec_keys = P;
                j->iv = P;
                j->iv_len_in_bytes = 0;
                break;
        case F_AES:
                j->enc_keys = k->aes_e[ki];
                j->dec_keys = k->aes_d[ki];
                if (A->cm == IMB_CIPHER_CFB)
                        j->dec_keys = k->aes_e[ki]; /* CFB deciphers with the encryption schedule */
                if (it->minimal) {
                        if (A->cm == IMB_CIPHER_CBC || A->cm == IMB_CIPHER_ECB) {
                                if (enc)
                                        j->dec_keys = P;
                                else
                                        j->enc_keys = P;
                        }
                        if (A->cm == IMB_CIPHER_ECB)
                                j->iv = P;
                }
                break;
        case F_CBCS:
                j->enc_keys = k->aes_e[0];
                j->dec_keys = k->aes_d[0];
                j->cipher_fields.CBCS.next_iv = it->next_iv;
                break;
        case F_DES:
        case F_DOCSISDES:
                j->enc_keys = k->des[0];
                j->dec_keys = k->des[0];
                break;
        case F_DES3:
                j->enc_keys = k->des3;
                j->dec_keys = k->des3;
                break;
        case F_CHACHA:
        case F_SNOWV:
        case F_ZUC:
                j->enc_keys = k->raw;
                j->dec_keys = k->raw;
                break;
        case F_SNOW3G:
                j->enc_keys = k->snow3g;
                j->dec_keys = k->snow3g;
                j->cipher_start_src_offset_in_bits = (uint64_t) it->off * 8;
                break;
        case F_KASUMI:
                j->enc_keys = k->kas8;
                j->dec_keys = k->kas8;
                j->cipher_start_src_offset_in_bits = (uint64_t) it->off * 8;
                break;
        case F_SM4:
                j->enc_keys = k->sm4_e;
                j->dec_keys = k->sm4_d;
                break;
        case F_HMAC: {
                int hi = A->sub == REF_SHA1 ? 0 : A->sub == REF_SHA224 ? 1 : A->sub == REF_SHA256 ? 2
                         : A->sub == REF_SHA384 ? 3 : A->sub == REF_SHA512 ? 4 : A->sub == REF_MD5 ? 5 : 6;
                j->u.HMAC._hashed_auth_key_xor_ipad = k->ipad[hi];
                j->u.HMAC._hashed_auth_key_xor_opad = k->opad[hi];
                break;
        }
        case F_SHA:
        case F_SM3:
        case F_CRC:
                break;
        case F_XCBC:
                j->u.XCBC._k1_expanded = k->xk1;
                j->u.XCBC._k2 = k->xk2;
                j->u.XCBC._k3 = k->xk3;
                break;
        case F_CMAC:
                j->u.CMAC._key_expanded = k->aes_e[ki];
                j->u.CMAC._skey1 = k->sk1[A->klen == 32];
                j->u.CMAC._skey2 = k->sk2[A->klen == 32];
                break;
        case F_GMAC:
                j->u.GMAC._key = &k->gcm[ki];
                j->u.GMAC._iv = it->iv;
                j->u.GMAC.iv_len_in_bytes = (uint64_t) ivl;
                break;
        case F_GHASH:
                j->u.GHASH._key = &k->ghash;
                j->u.GHASH._init_tag = k->zero16;
                break;
        case F_POLY:
                j->u.POLY1305._key = k->raw;
                break;
        case F_ZUCEIA:
                j->u.ZUC_EIA3._key = k->raw;
                if (ivl == 23) {
                        j->u.ZUC_EIA3._iv = NULL;
                        j->u.ZUC_EIA3._iv23 = it->iv;
                } else
                        j->u.ZUC_EIA3._iv = it->iv;
                break;
        case F_S3UIA:
                j->u.SNOW3G_UIA2._key = k->snow3g;
                j->u.SNOW3G_UIA2._iv = it->iv;
                break;
        case F_KF9:
                j->u.KASUMI_UIA1._key = k->kas9;
                break;
        case F_GCM:
                j->enc_keys = &k->gcm[ki];
                j->dec_keys = &k->gcm[ki];
                if (it->minimal) { /* validation requires only the pointer matching the direction */
                        if (enc)
                                j->dec_keys = P;
                        else
                                j->enc_keys = P;
                }
                j->u.GCM.aad = it->aad;
                j->u.GCM.aad_len_in_bytes = it->aadlen;
                break;
        case F_SM4GCM:
                j->enc_keys = &k->sm4gcm;
                j->dec_keys = &k->sm4gcm;
                if (it->minimal) {
                        if (enc)
                                j->dec_keys = P;
                        else
                                j->enc_keys = P;
                }
                j->u.GCM.aad = it->aad;
                j->u.GCM.aad_len_in_bytes = it->aadlen;
                break;
        case F_CCM:
                j->enc_keys = k->aes_e[ki];
                j->dec_keys = k->aes_e[ki];
                j->chain_order = enc ? IMB_ORDER_HASH_CIPHER : IMB_ORDER_CIPHER_HASH;
                j->u.CCM.aad = it->aad;
                j->u.CCM.aad_len_in_bytes = it->aadlen;
                break;
        case F_CHAPOLY:
                j->enc_keys = k->raw;
                j->dec_keys = k->raw;
                j->chain_order = IMB_ORDER_HASH_CIPHER;
                j->u.CHACHA20_POLY1305.aad = it->aad;
                j->u.CHACHA20_POLY1305.aad_len_in_bytes = it->aadlen;
                break;
        case F_SNOWVAEAD:
                j->enc_keys = k->raw;
                j->dec_keys = k->raw;
                j->u.SNOW_V_AEAD.aad = it->aad;
                j->u.SNOW_V_AEAD.aad_len_in_bytes = it->aadlen;
                break;
        case F_DOCSISCRC:
                j->enc_keys = k->aes_e[ki];
                j->dec_keys = k->aes_d[ki];
                j->chain_order = enc ? IMB_ORDER_HASH_CIPHER : IMB_ORDER_CIPHER_HASH;
                j->src = it->src;
                j->dst = it->dst + it->cipher_off;
                j->cipher_start_src_offset_in_bytes = it->cipher_off;
                j->msg_len_to_cipher_in_bytes = it->len;
                j->hash_start_src_offset_in_bytes = it->hash_off;
                j->msg_len_to_hash_in_bytes = it->hash_len;
                break;
        case F_PON:
                j->chain_order = enc ? IMB_ORDER_HASH_CIPHER : IMB_ORDER_CIPHER_HASH;
                j->src = it->src;
                j->dst = it->dst + 8;
                j->cipher_start_src_offset_in_bytes = 8;
                j->hash_start_src_offset_in_bytes = 0;
                j->msg_len_to_hash_in_bytes = it->len;
                if (it->pon_noctr) {
                        j->enc_keys = NULL;
                        j->dec_keys = NULL;
                        j->key_len_in_bytes = 0;
                        j->iv = NULL;
                        j->iv_len_in_bytes = 0;
                        j->msg_len_to_cipher_in_bytes = 0;
                } else {
                        j->enc_keys = k->aes_e[0];
                        j->dec_keys = k->aes_e[0];
                        j->msg_len_to_cipher_in_bytes = it->len - 8;
                }
                break;
        }
        if (it->chain_order)
                j->chain_order = (IMB_CHAIN_ORDER) it->chain_order;
}

void
alg_fill(IMB_MGR *m, IMB_JOB *j, const item_t *it)
{
        fill_one(m, j, it);
        if (!it->alg2)
                return;
        /* overlay the hash row on a cipher job */
        IMB_JOB h;
        item_t hi = *it;
        hi.alg = it->alg2;
        hi.alg2 = 0;
        hi.len = it->hlen;
        hi.off = it->hoff;
        hi.iv = it->hiv;
        hi.ivlen = it->hivlen;
        hi.minimal = 0;
        hi.chain_order = 0;
        fill_one(m, &h, &hi);
        j->hash_alg = h.hash_alg;
        j->hash_start_src_offset_in_bytes = h.hash_start_src_offset_in_bytes;
        j->msg_len_to_hash_in_bytes = h.msg_len_to_hash_in_bytes;
        j->auth_tag_output = h.auth_tag_output;
        j->auth_tag_output_len_in_bytes = h.auth_tag_output_len_in_bytes;
        j->u = h.u;
        if (!it->chain_order)
                j->chain_order = it->dir ? IMB_ORDER_CIPHER_HASH : IMB_ORDER_HASH_CIPHER;
}

int
alg_ref_chain(const item_t *it, uint8_t *ed, uint8_t *et)
{
        /* cipher stage result */
        item_t ci = *it;
        ci.alg2 = 0;
        uint32_t nb = item_nbytes(&ci);
        uint8_t niv[16];
        alg_ref(&ci, NULL, ed, NULL, niv);
        /* what the hash stage reads: src[hoff..) - in place and cipher-first => cipher output where ranges overlap */
        int order = it->chain_order ? it->chain_order : (it->dir ? IMB_ORDER_CIPHER_HASH : IMB_ORDER_HASH_CIPHER);
        item_t hi = *it;
        hi.alg = it->alg2;
        hi.alg2 = 0;
        hi.len = it->hlen;
        hi.off = 0;
        hi.iv = it->hiv;
        hi.ivlen = it->hivlen;
        uint32_t hb = item_nbytes(&hi);
        uint8_t *view = malloc((size_t) hb + 16);
        memcpy(view, it->src + it->hoff, hb);
        if (order == IMB_ORDER_CIPHER_HASH && it->dst == it->src + it->off) {
                /* dst aliases src[off..off+nb): overlay the cipher output */
                for (uint32_t i = 0; i < nb; i++) {
                        int64_t p = (int64_t) it->off + i - it->hoff;
                        if (p >= 0 && p < (int64_t) hb)
                                view[p] = ed[i];
                }
        }
        hi.src = view;
        alg_ref(&hi, NULL, NULL, et, NULL);
        free(view);
        return 3;
}

int
alg_ref(const item_t *it, const uint8_t *prev_dst, uint8_t *ed, uint8_t *et, uint8_t *eniv)
{
        const alg_t *A = &ALGS[it->alg];
        const uint8_t *key = it->ks->raw;
        const uint8_t *in = it->src ? it->src + it->off : NULL;
        const int enc = it->dir, ivl = item_ivlen(it), tl = item_taglen(it);
        const size_t len = it->len;
        uint8_t full[64];
        int r = 0;
        switch (A->family) {
        case F_NULLC:
                /* NULL cipher: documented as no operation on dst */
                return 0;
        case F_AES:
                r = 1;
                switch (A->cm) {
                case IMB_CIPHER_CBC: ref_aes_cbc(enc, key, A->klen, it->iv, in, ed, len); break;
                case IMB_CIPHER_ECB: ref_aes_ecb(enc, key, A->klen, in, ed, len); break;
                case IMB_CIPHER_CNTR: ref_aes_ctr(key, A->klen, it->iv, ivl, in, ed, len); break;
                case IMB_CIPHER_CFB: ref_aes_cfb128(enc, key, A->klen, it->iv, in, ed, len); break;
                case IMB_CIPHER_DOCSIS_SEC_BPI: ref_docsis_aes(enc, key, A->klen, it->iv, in, ed, len); break;
                case IMB_CIPHER_CNTR_BITLEN: {
                        size_t nb = (len + 7) / 8;
                        if (prev_dst)
                                memmove(ed, prev_dst, nb);
                        else
                                memset(ed, 0, nb);
                        /* the reference preserves the low bits of the last dst byte: give it dst's previous tail */
                        uint8_t last = ed[nb - 1];
                        uint8_t *tmp = malloc(nb);
                        memcpy(tmp, in, nb);
                        ref_aes_ctr_bits(key, A->klen, it->iv, ivl, tmp, ed, len);
                        if (len % 8) {
                                uint8_t mask = (uint8_t) (0xff << (8 - len % 8));
                                ed[nb - 1] = (uint8_t) ((ed[nb - 1] & mask) | (last & ~mask));
                        }
                        free(tmp);
                        break;
                }
                default: DIE("alg_ref: aes mode");
                }
                break;
        case F_CBCS:
                ref_aes_cbcs_1_9(enc, key, it->iv, in, ed, len, eniv);
                r = 1;
                break;
        case F_DES: ref_des_cbc(enc, key, it->iv, in, ed, len); r = 1; break;
        case F_DES3: ref_3des_cbc(enc, key, it->iv, in, ed, len); r = 1; break;
        case F_DOCSISDES: ref_docsis_des(enc, key, it->iv, in, ed, len); r = 1; break;
        case F_CHACHA: ref_chacha20(key, it->iv, 1, in, ed, len); r = 1; break;
        case F_ZUC:
                if (A->klen == 16)
                        ref_zuc_eea3(key, it->iv, in, ed, len);
                else
                        ref_zuc256_eea3(key, it->iv, ivl, in, ed, len);
                r = 1;
                break;
        case F_SNOW3G: ref_snow3g_uea2(key, it->iv, in, ed, len); r = 1; break;
        case F_KASUMI: ref_kasumi_f8(key, it->iv, in, ed, len); r = 1; break;
        case F_SNOWV: ref_snowv(key, it->iv, in, ed, len); r = 1; break;
        case F_SM4:
                if (A->cm == IMB_CIPHER_SM4_ECB)
                        ref_sm4_ecb(enc, key, in, ed, len);
                else if (A->cm == IMB_CIPHER_SM4_CBC)
                        ref_sm4_cbc(enc, key, it->iv, in, ed, len);
                else
                        ref_sm4_ctr(key, it->iv, ivl, in, ed, len);
                r = 1;
                break;
        case F_HMAC:
                ref_hmac(A->sub, key, (size_t) it->ks->hmac_klen, in, len, full);
                memcpy(et, full, (size_t) tl);
                r = 2;
                break;
        case F_SHA:
        case F_SM3:
                ref_hash(A->sub, in, len, full);
                memcpy(et, full, (size_t) tl);
                r = 2;
                break;
        case F_XCBC:
                ref_aes_xcbc_mac(key, in, len, full);
                memcpy(et, full, (size_t) tl);
                r = 2;
                break;
        case F_CMAC:
                ref_aes_cmac(key, A->klen, in, A->bitlen ? len : len * 8, full);
                memcpy(et, full, (size_t) tl);
                r = 2;
                break;
        case F_GMAC:
                ref_gmac(key, A->klen, it->iv, (size_t) ivl, in, len, full);
                memcpy(et, full, (size_t) tl);
                r = 2;
                break;
        case F_GHASH:
                ref_ghash(key, in, len, full);
                memcpy(et, full, (size_t) tl);
                r = 2;
                break;
        case F_POLY:
                ref_poly1305(key, in, len, full);
                memcpy(et, full, (size_t) tl);
                r = 2;
                break;
        case F_ZUCEIA:
                if (A->klen == 16)
                        ref_zuc_eia3(key, it->iv, in, len, et);
                else
                        ref_zuc256_eia3(key, it->iv, ivl, in, len, et, tl);
                r = 2;
                break;
        case F_S3UIA: ref_snow3g_uia2(key, it->iv, in, len, et); r = 2; break;
        case F_KF9: ref_kasumi_f9(key, in, len, et); r = 2; break;
        case F_CRC: {
                uint32_t c = ref_crc(A->sub, in, len);
                memcpy(et, &c, 4);
                r = 2;
                break;
        }
        case F_GCM:
                ref_gcm(enc, key, A->klen, it->iv, (size_t) ivl, it->aad, it->aadlen, in, ed, len, full);
                memcpy(et, full, (size_t) tl);
                r = 3;
                break;
        case F_SM4GCM:
                ref_sm4_gcm(enc, key, it->iv, (size_t) ivl, it->aad, it->aadlen, in, ed, len, full);
                memcpy(et, full, (size_t) tl);
                r = 3;
                break;
        case F_CCM:
                ref_ccm(enc, key, A->klen, it->iv, ivl, it->aad, it->aadlen, in, ed, len, et, tl);
                r = 3;
                break;
        case F_CHAPOLY:
                ref_chacha20_poly1305(enc, key, it->iv, it->aad, it->aadlen, in, ed, len, et);
                r = 3;
                break;
        case F_SNOWVAEAD:
                if (enc)
                        ref_snowv_aead_enc(key, it->iv, it->aad, it->aadlen, in, ed, len, et);
                else
                        ref_snowv_aead_dec(key, it->iv, it->aad, it->aadlen, in, ed, len, et);
                r = 3;
                break;
        case F_DOCSISCRC: {
                /* whole frame in ed: frame length = max(hash_off+hash_len+4, cipher_off+len) */
                size_t fl = it->hash_off + it->hash_len + 4;
                if (it->cipher_off + len > fl)
                        fl = it->cipher_off + len;
                memmove(ed, it->src, fl);
                ref_docsis_crc32(enc, key, A->klen, it->iv, ed, it->hash_off, it->hash_len, it->cipher_off, len, et);
                r = 3;
                break;
        }
        case F_PON:
                memmove(ed, it->src, len);
                ref_pon(enc, it->pon_noctr ? NULL : key, it->iv, ed, len, et);
                r = 3;
                break;
        }
        return r;
}

int
alg_cmp_dst(const item_t *it, const uint8_t *got, const uint8_t *exp)
{
        const alg_t *A = &ALGS[it->alg];
        if (A->family == F_CBCS && it->dst != it->src) {
                /* out of place the library leaves the skipped (clear) blocks of dst untouched: compare the
                 * ciphered blocks 0,10,20,.. only */
                for (uint32_t b = 0; b * 16 < it->len; b += 10)
                        if (memcmp(got + b * 16, exp + b * 16, 16))
                                return 1;
                return 0;
        }
        if (A->bitlen && (A->family == F_SNOW3G || A->family == F_KASUMI || A->cm == IMB_CIPHER_CNTR_BITLEN)) {
                uint32_t nb = it->len / 8;
                if (memcmp(got, exp, nb))
                        return 1;
                if (it->len % 8) {
                        uint8_t mask = (uint8_t) (0xff << (8 - it->len % 8));
                        if ((got[nb] ^ exp[nb]) & mask)
                                return 1;
                        if (A->cm == IMB_CIPHER_CNTR_BITLEN && ((got[nb] ^ exp[nb]) & ~mask))
                                return 1; /* documented: remaining bits of the last byte are preserved */
                }
                return 0;
        }
        return memcmp(got, exp, item_nbytes(it)) != 0;
}
