/* Common harness for all property drivers (see DESIGN.md section 3). */
#ifndef VERIF_COMMON_H
#define VERIF_COMMON_H
#define _GNU_SOURCE
#include <stdint.h>
#include <stddef.h>
#include <stdio.h>
#include <stdlib.h>
#include <string.h>
#include <intel-ipsec-mb.h>

/* ---------- variants ---------- */
typedef struct {
        const char *name;
        void (*init)(IMB_MGR *);
        uint64_t flags;
        IMB_ARCH arch;
        int type; /* expected mgr->used_arch_type */
} variant_t;
#define NVARIANTS 7
extern const variant_t VARIANTS[NVARIANTS];
/* allocate + init + assert the variant really selected (no silent fallback); NULL if host cannot run it */
IMB_MGR *mgr_new(int v);
/* (re)initialise an existing manager block as variant v (flags of the block must match) */
void mgr_init(IMB_MGR *m, int v);
int variant_usable(int v);

/* ---------- PRNG (only selects data bytes; VERIF_SEED) ---------- */
extern uint64_t verif_seed;
uint64_t sm64(uint64_t *s);
void fill_rand(uint8_t *p, size_t n, uint64_t seed);

/* ---------- guarded regions: [PROT_NONE page][n pages RW][PROT_NONE page] ---------- */
typedef struct {
        uint8_t *base; /* first accessible byte */
        size_t size;   /* accessible bytes (multiple of 4096) */
} region_t;
region_t region_new(size_t pages);
static inline uint8_t *
region_endflush(region_t r, size_t len)
{
        return r.base + r.size - len;
}

/* ---------- records: one JSON object per line appended to $VERIF_OUT ---------- */
void rec_init(const char *property, const char *tier);
void rec_begin(const char *type); /* "viol" | "sample" | "note" */
void rec_s(const char *k, const char *v);
void rec_i(const char *k, long long v);
void rec_hex(const char *k, const void *p, size_t n);
void rec_end(void);
/* returns 1 if fewer than cap records with this signature were emitted so far by this process tree */
int rec_sig_ok(const char *sig, int cap);
extern const char *g_property, *g_tier;
int tier_thorough(void);

/* ---------- named counters shared across forked workers ---------- */
void stat_add(const char *name, long long n);
void stat_max(const char *name, long long n);
void stats_emit(void); /* parent, after par_run: writes {"type":"stats",...} */

/* ---------- distinct-case counting (hash set shared by parent only; workers report via stat) ---------- */
typedef struct hset hset_t;
hset_t *hset_new(size_t cap_pow2);
int hset_add(hset_t *h, uint64_t key); /* 1 if new */
size_t hset_count(hset_t *h);
uint64_t hash_bytes(const void *p, size_t n, uint64_t seed);

/* ---------- parallel, crash-isolated item runner ---------- */
typedef void (*item_fn)(long item, void *arg);
typedef void (*crash_fn)(long item, int sig, void *arg);
/* items 0..n-1 striped over workers; a child that dies on item i is reported through cf(i,sig) and a new child
 * resumes after i. per_item_timeout_s>0: alarm() watchdog (sig=SIGALRM => hang). Returns number of items not
 * run because the global deadline expired. */
long par_run(long nitems, int nworkers, item_fn f, crash_fn cf, void *arg, int per_item_timeout_s);
int deadline_reached(void);
double now_s(void);
int n_workers(void);

/* ---------- call trampoline (C18 invariant on every call; C13 observation point) ---------- */
struct tctx {
        void *fn;               /* 0 */
        uint64_t a[6];          /* 8 */
        void *stktop;           /* 56 */
        uint64_t ret;           /* 64 */
        uint64_t rbx, rbp, r12, r13, r14, r15; /* 72 */
        uint64_t rsp_after;     /* 120 */
        uint64_t exp_rsp;       /* 128 */
        uint64_t rflags;        /* 136 */
        uint32_t mxcsr_before;  /* 144 */
        uint32_t mxcsr_after;   /* 148 */
        uint64_t saved_rsp;     /* 152 */
        void *dump;             /* 160: 2240 bytes: gprs[16] (rax,rcx,rdx,rsi,rdi,r8,r9,r10,r11), zmm0-31, k0-7 */
        uint64_t zero_regs;     /* 168 */
        uint64_t nstack;        /* 176: number of stack-passed arguments */
        uint64_t sargs[32];     /* 184 */
};
void vtramp(struct tctx *t);
#define TDUMP_SIZE 2240
/* generic checked call; on a calling-convention violation emits a C18 record with `what` context */
uint64_t tcall(const char *what, void *fn, uint64_t a0, uint64_t a1, uint64_t a2, uint64_t a3, uint64_t a4,
               uint64_t a5);
/* any number of integer/pointer arguments (first 6 in registers, the rest on the stack) */
uint64_t tcalln(const char *what, void *fn, int nargs, const uint64_t *args);
extern long long g_tcalls;
extern const char *g_tcall_ctx; /* free-text context for C18 reports (variant/alg) */
#define TC0(w, f) tcall(w, (void *) (f), 0, 0, 0, 0, 0, 0)
#define TC1(w, f, a) tcall(w, (void *) (f), (uint64_t) (a), 0, 0, 0, 0, 0)
#define TC2(w, f, a, b) tcall(w, (void *) (f), (uint64_t) (a), (uint64_t) (b), 0, 0, 0, 0)
#define TC3(w, f, a, b, c) tcall(w, (void *) (f), (uint64_t) (a), (uint64_t) (b), (uint64_t) (c), 0, 0, 0)
#define TC4(w, f, a, b, c, d)                                                                      \
        tcall(w, (void *) (f), (uint64_t) (a), (uint64_t) (b), (uint64_t) (c), (uint64_t) (d), 0, 0)
#define TC5(w, f, a, b, c, d, e)                                                                   \
        tcall(w, (void *) (f), (uint64_t) (a), (uint64_t) (b), (uint64_t) (c), (uint64_t) (d),      \
              (uint64_t) (e), 0)
#define TC6(w, f, a, b, c, d, e, g)                                                                \
        tcall(w, (void *) (f), (uint64_t) (a), (uint64_t) (b), (uint64_t) (c), (uint64_t) (d),      \
              (uint64_t) (e), (uint64_t) (g))

/* manager entry points through the trampoline */
#define X_GET_NEXT(m) ((IMB_JOB *) TC1("get_next_job", (m)->get_next_job, m))
#define X_SUBMIT(m) ((IMB_JOB *) TC1("submit_job", (m)->submit_job, m))
#define X_SUBMIT_NOCHECK(m) ((IMB_JOB *) TC1("submit_job_nocheck", (m)->submit_job_nocheck, m))
#define X_FLUSH(m) ((IMB_JOB *) TC1("flush_job", (m)->flush_job, m))
#define X_GET_COMPLETED(m) ((IMB_JOB *) TC1("get_completed_job", (m)->get_completed_job, m))
#define X_QUEUE_SIZE(m) ((uint32_t) TC1("queue_size", (m)->queue_size, m))
#define X_GET_NEXT_BURST(m, n, jobs) ((uint32_t) TC3("get_next_burst", (m)->get_next_burst, m, n, jobs))
#define X_SUBMIT_BURST(m, n, jobs) ((uint32_t) TC3("submit_burst", (m)->submit_burst, m, n, jobs))
#define X_SUBMIT_BURST_NOCHECK(m, n, jobs)                                                         \
        ((uint32_t) TC3("submit_burst_nocheck", (m)->submit_burst_nocheck, m, n, jobs))
#define X_FLUSH_BURST(m, n, jobs) ((uint32_t) TC3("flush_burst", (m)->flush_burst, m, n, jobs))

#define DIE(...)                                                                                   \
        do {                                                                                       \
                fprintf(stderr, "FRAMEWORK ERROR %s:%d: ", __FILE__, __LINE__);                    \
                fprintf(stderr, __VA_ARGS__);                                                      \
                fprintf(stderr, "\n");                                                             \
                exit(3);                                                                           \
        } while (0)

#endif
