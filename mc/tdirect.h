/* Redirect the direct-API convenience macros of intel-ipsec-mb.h through the register-checking trampoline
 * (C18 invariant on every direct call). Include after intel-ipsec-mb.h / common.h. */
#ifndef VERIF_TDIRECT_H
#define VERIF_TDIRECT_H
#include "common.h"
#define TD_U(x) ((uint64_t) (x))
#define TD_M1(a) TD_U(a)
#define TD_M2(a, ...) TD_U(a), TD_M1(__VA_ARGS__)
#define TD_M3(a, ...) TD_U(a), TD_M2(__VA_ARGS__)
#define TD_M4(a, ...) TD_U(a), TD_M3(__VA_ARGS__)
#define TD_M5(a, ...) TD_U(a), TD_M4(__VA_ARGS__)
#define TD_M6(a, ...) TD_U(a), TD_M5(__VA_ARGS__)
#define TD_M7(a, ...) TD_U(a), TD_M6(__VA_ARGS__)
#define TD_CALL(n, mgr, fn, ...) tcalln(#fn, (void *) (mgr)->fn, n, (uint64_t[]){ TD_M##n(__VA_ARGS__) })
#undef IMB_AES128_GCM_INIT
#undef IMB_AES192_GCM_INIT
#undef IMB_AES256_GCM_INIT
#define IMB_AES128_GCM_INIT(m, k, c, iv, aad, al) TD_CALL(5, m, gcm128_init, k, c, iv, aad, al)
#define IMB_AES192_GCM_INIT(m, k, c, iv, aad, al) TD_CALL(5, m, gcm192_init, k, c, iv, aad, al)
#define IMB_AES256_GCM_INIT(m, k, c, iv, aad, al) TD_CALL(5, m, gcm256_init, k, c, iv, aad, al)
#undef IMB_AES128_GCM_INIT_VAR_IV
#undef IMB_AES192_GCM_INIT_VAR_IV
#undef IMB_AES256_GCM_INIT_VAR_IV
#define IMB_AES128_GCM_INIT_VAR_IV(m, k, c, iv, il, aad, al) TD_CALL(6, m, gcm128_init_var_iv, k, c, iv, il, aad, al)
#define IMB_AES192_GCM_INIT_VAR_IV(m, k, c, iv, il, aad, al) TD_CALL(6, m, gcm192_init_var_iv, k, c, iv, il, aad, al)
#define IMB_AES256_GCM_INIT_VAR_IV(m, k, c, iv, il, aad, al) TD_CALL(6, m, gcm256_init_var_iv, k, c, iv, il, aad, al)
#undef IMB_AES128_GCM_ENC_UPDATE
#undef IMB_AES192_GCM_ENC_UPDATE
#undef IMB_AES256_GCM_ENC_UPDATE
#undef IMB_AES128_GCM_DEC_UPDATE
#undef IMB_AES192_GCM_DEC_UPDATE
#undef IMB_AES256_GCM_DEC_UPDATE
#define IMB_AES128_GCM_ENC_UPDATE(m, k, c, d, s, l) TD_CALL(5, m, gcm128_enc_update, k, c, d, s, l)
#define IMB_AES192_GCM_ENC_UPDATE(m, k, c, d, s, l) TD_CALL(5, m, gcm192_enc_update, k, c, d, s, l)
#define IMB_AES256_GCM_ENC_UPDATE(m, k, c, d, s, l) TD_CALL(5, m, gcm256_enc_update, k, c, d, s, l)
#define IMB_AES128_GCM_DEC_UPDATE(m, k, c, d, s, l) TD_CALL(5, m, gcm128_dec_update, k, c, d, s, l)
#define IMB_AES192_GCM_DEC_UPDATE(m, k, c, d, s, l) TD_CALL(5, m, gcm192_dec_update, k, c, d, s, l)
#define IMB_AES256_GCM_DEC_UPDATE(m, k, c, d, s, l) TD_CALL(5, m, gcm256_dec_update, k, c, d, s, l)
#undef IMB_AES128_GCM_ENC_FINALIZE
#undef IMB_AES192_GCM_ENC_FINALIZE
#undef IMB_AES256_GCM_ENC_FINALIZE
#undef IMB_AES128_GCM_DEC_FINALIZE
#undef IMB_AES192_GCM_DEC_FINALIZE
#undef IMB_AES256_GCM_DEC_FINALIZE
#define IMB_AES128_GCM_ENC_FINALIZE(m, k, c, t, tl) TD_CALL(4, m, gcm128_enc_finalize, k, c, t, tl)
#define IMB_AES192_GCM_ENC_FINALIZE(m, k, c, t, tl) TD_CALL(4, m, gcm192_enc_finalize, k, c, t, tl)
#define IMB_AES256_GCM_ENC_FINALIZE(m, k, c, t, tl) TD_CALL(4, m, gcm256_enc_finalize, k, c, t, tl)
#define IMB_AES128_GCM_DEC_FINALIZE(m, k, c, t, tl) TD_CALL(4, m, gcm128_dec_finalize, k, c, t, tl)
#define IMB_AES192_GCM_DEC_FINALIZE(m, k, c, t, tl) TD_CALL(4, m, gcm192_dec_finalize, k, c, t, tl)
#define IMB_AES256_GCM_DEC_FINALIZE(m, k, c, t, tl) TD_CALL(4, m, gcm256_dec_finalize, k, c, t, tl)
#undef IMB_AES128_GMAC_INIT
#undef IMB_AES192_GMAC_INIT
#undef IMB_AES256_GMAC_INIT
#define IMB_AES128_GMAC_INIT(m, k, c, iv, il) TD_CALL(4, m, gmac128_init, k, c, iv, il)
#define IMB_AES192_GMAC_INIT(m, k, c, iv, il) TD_CALL(4, m, gmac192_init, k, c, iv, il)
#define IMB_AES256_GMAC_INIT(m, k, c, iv, il) TD_CALL(4, m, gmac256_init, k, c, iv, il)
#undef IMB_AES128_GMAC_UPDATE
#undef IMB_AES192_GMAC_UPDATE
#undef IMB_AES256_GMAC_UPDATE
#define IMB_AES128_GMAC_UPDATE(m, k, c, s, l) TD_CALL(4, m, gmac128_update, k, c, s, l)
#define IMB_AES192_GMAC_UPDATE(m, k, c, s, l) TD_CALL(4, m, gmac192_update, k, c, s, l)
#define IMB_AES256_GMAC_UPDATE(m, k, c, s, l) TD_CALL(4, m, gmac256_update, k, c, s, l)
#undef IMB_AES128_GMAC_FINALIZE
#undef IMB_AES192_GMAC_FINALIZE
#undef IMB_AES256_GMAC_FINALIZE
#define IMB_AES128_GMAC_FINALIZE(m, k, c, t, tl) TD_CALL(4, m, gmac128_finalize, k, c, t, tl)
#define IMB_AES192_GMAC_FINALIZE(m, k, c, t, tl) TD_CALL(4, m, gmac192_finalize, k, c, t, tl)
#define IMB_AES256_GMAC_FINALIZE(m, k, c, t, tl) TD_CALL(4, m, gmac256_finalize, k, c, t, tl)
#undef IMB_CHACHA20_POLY1305_INIT
#undef IMB_CHACHA20_POLY1305_ENC_UPDATE
#undef IMB_CHACHA20_POLY1305_DEC_UPDATE
#undef IMB_CHACHA20_POLY1305_ENC_FINALIZE
#undef IMB_CHACHA20_POLY1305_DEC_FINALIZE
#define IMB_CHACHA20_POLY1305_INIT(m, k, c, iv, aad, al) TD_CALL(5, m, chacha20_poly1305_init, k, c, iv, aad, al)
#define IMB_CHACHA20_POLY1305_ENC_UPDATE(m, k, c, d, s, l) TD_CALL(5, m, chacha20_poly1305_enc_update, k, c, d, s, l)
#define IMB_CHACHA20_POLY1305_DEC_UPDATE(m, k, c, d, s, l) TD_CALL(5, m, chacha20_poly1305_dec_update, k, c, d, s, l)
#define IMB_CHACHA20_POLY1305_ENC_FINALIZE(m, c, t, tl) TD_CALL(3, m, chacha20_poly1305_finalize, c, t, tl)
#define IMB_CHACHA20_POLY1305_DEC_FINALIZE(m, c, t, tl) TD_CALL(3, m, chacha20_poly1305_finalize, c, t, tl)
#endif
