#include "bfs.h"
#include <sys/prctl.h>
#include <signal.h>
#include <unistd.h>
#include <signal.h>
#include <sys/mman.h>
#include <sys/wait.h>

struct shared {
        long long n_next, transitions, dups, nsc;
        int cap_hit;
        long cur_item[64];
        int cur_op[64];
};
static const bfs_model *M;
static struct shared *SH;
static uint64_t *tab;
static size_t tabcap;
static uint8_t *fr_cur, *fr_next, *sc_list;
static size_t esz;
static const uint8_t *cur_entry;
static int cur_op_now, cur_depth;
static char pathbuf[BFS_MAXPATH * 6 + 64];

static void *
shmap(size_t n)
{
        void *p = mmap(0, n, PROT_READ | PROT_WRITE, MAP_SHARED | MAP_ANONYMOUS | MAP_NORESERVE, -1, 0);
        if (p == MAP_FAILED)
                DIE("bfs mmap %zu", n);
        return p;
}
/* 1 = inserted (new), 0 = present */
static int
tab_insert(uint64_t k, int lookup_only)
{
        if (!k)
                k = 0x9e3779b9;
        size_t i = (size_t) (k * 0x9E3779B97F4A7C15ULL >> 7) & (tabcap - 1);
        for (size_t n = 0; n < tabcap; n++) {
                uint64_t c = __atomic_load_n(&tab[i], __ATOMIC_ACQUIRE);
                if (c == k)
                        return 0;
                if (c == 0) {
                        if (lookup_only)
                                return 1;
                        uint64_t exp = 0;
                        if (__atomic_compare_exchange_n(&tab[i], &exp, k, 0, __ATOMIC_ACQ_REL, __ATOMIC_ACQUIRE))
                                return 1;
                        if (exp == k)
                                return 0;
                }
                i = (i + 1) & (tabcap - 1);
        }
        DIE("bfs visited set full");
        return 0;
}
const char *
bfs_path_str(void)
{
        size_t o = 0;
        pathbuf[0] = 0;
        if (cur_entry) {
                int n = cur_entry[0];
                for (int i = 0; i < n; i++)
                        o += (size_t) snprintf(pathbuf + o, sizeof pathbuf - o, "%s ", M->opname(cur_entry[1 + i]));
        }
        if (cur_op_now >= 0)
                snprintf(pathbuf + o, sizeof pathbuf - o, "-> %s", M->opname(cur_op_now));
        return pathbuf;
}
int
bfs_depth(void)
{
        return cur_depth;
}

static void
expand(long item, int w)
{
        const uint8_t *e = fr_cur + (size_t) item * esz;
        cur_entry = e;
        long long tr = 0, du = 0;
        for (int op = 0; op < M->nops; op++) {
                M->restore(e + 128);
                cur_op_now = op;
                SH->cur_op[w] = op;
                if (!M->apply(op))
                        continue;
                tr++;
                uint64_t k = M->key();
                if (tab_insert(k, 0)) {
                        long long idx = __atomic_fetch_add(&SH->n_next, 1, __ATOMIC_RELAXED);
                        if ((size_t) idx >= M->max_frontier || e[0] + 1 >= BFS_MAXPATH) {
                                SH->cap_hit = 1;
                                continue;
                        }
                        uint8_t *d = fr_next + (size_t) idx * esz;
                        memcpy(d, e, 1 + (size_t) e[0]);
                        d[1 + e[0]] = (uint8_t) op;
                        d[0] = (uint8_t) (e[0] + 1);
                        M->save(d + 128);
                } else {
                        du++;
                        if (M->selfcheck_n > 0 && SH->nsc < M->selfcheck_n) {
                                long long idx = __atomic_fetch_add(&SH->nsc, 1, __ATOMIC_RELAXED);
                                if (idx < M->selfcheck_n) {
                                        uint8_t *d = sc_list + (size_t) idx * esz;
                                        memcpy(d, e, 1 + (size_t) e[0]);
                                        d[1 + e[0]] = (uint8_t) op;
                                        d[0] = (uint8_t) (e[0] + 1);
                                        M->save(d + 128);
                                }
                        }
                }
        }
        __atomic_fetch_add(&SH->transitions, tr, __ATOMIC_RELAXED);
        __atomic_fetch_add(&SH->dups, du, __ATOMIC_RELAXED);
}

void
bfs_run(const bfs_model *m, bfs_result *r)
{
        M = m;
        memset(r, 0, sizeof *r);
        esz = (128 + m->snap_size + 63) & ~(size_t) 63;
        tabcap = 1024;
        while (tabcap < 2 * m->max_states)
                tabcap <<= 1;
        SH = shmap(sizeof *SH);
        memset(SH, 0, sizeof *SH);
        tab = shmap(tabcap * 8);
        fr_cur = shmap(m->max_frontier * esz);
        fr_next = shmap(m->max_frontier * esz);
        sc_list = m->selfcheck_n > 0 ? shmap((size_t) m->selfcheck_n * esz) : NULL;
        int W = m->nworkers < 1 ? 1 : (m->nworkers > 64 ? 64 : m->nworkers);

        fr_cur[0] = 0;
        cur_entry = NULL;
        cur_op_now = -1;
        m->save(fr_cur + 128);
        tab_insert(m->key(), 0);
        long long n_cur = 1;
        r->states = 1;
        int depth = 0;
        while (n_cur > 0) {
                if (m->maxdepth >= 0 && depth >= m->maxdepth)
                        break;
                if (deadline_reached()) {
                        r->capped = 1;
                        break;
                }
                cur_depth = depth;
                SH->n_next = 0;
                if (W == 1) {
                        for (long i = 0; i < n_cur; i++) {
                                if ((i & 255) == 0 && deadline_reached()) {
                                        SH->cap_hit = 1;
                                        break;
                                }
                                expand(i, 0);
                        }
                } else {
                        pid_t pid[64];
                        fflush(stdout);
                        fflush(stderr);
                        for (int w = 0; w < W; w++) {
                                pid[w] = fork();
                                if (pid[w] < 0)
                                        DIE("fork");
                                if (pid[w] == 0) {
                                        prctl(PR_SET_PDEATHSIG, SIGKILL);
                                        for (long i = w; i < n_cur; i += W) {
                                                if ((i & 255) == (w & 255) && deadline_reached()) {
                                                        SH->cap_hit = 1;
                                                        break;
                                                }
                                                SH->cur_item[w] = i;
                                                expand(i, w);
                                        }
                                        stat_add("_tcalls", g_tcalls);
                                        fflush(stdout);
                                        _exit(0);
                                }
                        }
                        for (int w = 0; w < W; w++) {
                                int st;
                                waitpid(pid[w], &st, 0);
                                if (WIFEXITED(st) && WEXITSTATUS(st) == 0)
                                        continue;
                                if (WIFEXITED(st) && WEXITSTATUS(st) == 3)
                                        DIE("bfs worker framework error");
                                if (!r->crashed) {
                                        r->crashed = WIFSIGNALED(st) ? WTERMSIG(st) : 1000 + WEXITSTATUS(st);
                                        cur_entry = fr_cur + (size_t) SH->cur_item[w] * esz;
                                        cur_op_now = SH->cur_op[w];
                                        snprintf(r->crash_path, sizeof r->crash_path, "%s", bfs_path_str());
                                }
                        }
                        if (r->crashed)
                                break;
                }
                long long nn = SH->n_next;
                if ((size_t) nn > m->max_frontier)
                        nn = (long long) m->max_frontier;
                r->states += nn;
                if (nn > r->frontier_peak)
                        r->frontier_peak = nn;
                uint8_t *t = fr_cur;
                fr_cur = fr_next;
                fr_next = t;
                n_cur = nn;
                depth++;
                if (nn > 0)
                        r->maxdepth = depth;
                if (SH->cap_hit) {
                        r->capped = 1;
                        break;
                }
        }
        r->transitions = SH->transitions;
        r->dups = SH->dups;
        if (n_cur == 0 && !r->capped && !r->crashed)
                r->fixpoint = 1;
        if (m->maxdepth < 0 && !r->fixpoint)
                r->capped = 1;
        /* abstraction self-check: successors of merged duplicates must all be known states */
        if (r->fixpoint && m->selfcheck_n > 0) {
                long long n = SH->nsc < m->selfcheck_n ? SH->nsc : m->selfcheck_n;
                r->selfcheck_merged = r->dups;
                for (long long i = 0; i < n; i++) {
                        const uint8_t *e = sc_list + (size_t) i * esz;
                        cur_entry = e;
                        for (int op = 0; op < m->nops; op++) {
                                m->restore(e + 128);
                                cur_op_now = op;
                                if (!m->apply(op))
                                        continue;
                                if (tab_insert(m->key(), 1))
                                        r->selfcheck_divergences++;
                        }
                        r->selfcheck_reexpanded++;
                }
        }
        cur_entry = NULL;
        cur_op_now = -1;
        munmap(SH, sizeof *SH);
        munmap(tab, tabcap * 8);
        munmap(fr_cur, m->max_frontier * esz);
        munmap(fr_next, m->max_frontier * esz);
        if (sc_list)
                munmap(sc_list, (size_t) m->selfcheck_n * esz);
}
